(** C02 for the whole combinator model: every parse terminates. The interpreter runs on fuel and
    answers RFuel only when it runs out; here: with fuel above the nesting depth of the grammar
    plus the number of bytes left in the text (plus a constant) it never does, for every grammar
    within the documented preconditions whose repetition bodies consume at least one token
    whenever they succeed, on any lexer standing in the scan, with or without a sink, under every
    recovery strategy. The measure is the cursor: no lexer operation moves it backwards, a delivery
    moves it forwards, and it never passes the end of the text. *)
From Tephra Require Import MetricsSpec MetricsFacts CLexer LexerFacts LexerOps Run Peg RunCore RunErrors RunCapture
     RunRecover RunScope RunSink RunBracket RunTotal RunMove RunSafe.

Section Mono.
  Variable m : metrics.
  Hypothesis Htab : 1 <= tabw m.
  Variable t : text.
  Hypothesis Ht : wf_text t.
  Local Notation Inv := (Inv m t).

  Definition cur (l : clexer) : nat := byte (c_cur l).

  Lemma cur_le_blen lx ys : Inv lx ys -> cur lx <= blen t.
  Proof. intros [[Et _] (pre & suf & [Esplit Hb]) _ _ _ _]. unfold cur. rewrite Esplit, blen_app, Hb. lia. Qed.

  (** how the cursor moves: not at all, or strictly forwards *)
  Definition adv (lx lx' : clexer) : Prop := c_cur lx' = c_cur lx \/ cur lx < cur lx'.

  Lemma adv_refl lx : adv lx lx.
  Proof. left. reflexivity. Qed.

  Lemma adv_trans a b c : adv a b -> adv b c -> adv a c.
  Proof. unfold adv, cur. intros [E1|L1] [E2|L2]; [left; congruence|right; rewrite <- E1; exact L2|right; rewrite E2; exact L1|right; lia]. Qed.

  Lemma adv_le a b : adv a b -> cur a <= cur b.
  Proof. unfold adv, cur. intros [E|L]; [rewrite E; lia|lia]. Qed.

  Lemma fold_skip_adv skf (Hk : is_skip skf) : forall sk lx zs,
    over m t lx -> on_boundary t (c_cur lx) -> stream m t (c_sc lx) (c_cur lx) (sk ++ zs) ->
    adv lx (fold_left skf sk lx).
  Proof using Htab Ht.
    induction sk as [|y r IH]; intros lx zs Hov Hb Hs; cbn [fold_left app] in *; [apply adv_refl|].
    destruct (stream_tail m t _ _ _ _ Hs) as [Ey Hr].
    pose proof (stream_boundary m Htab t Ht _ _ _ _ Hb Hs) as Hb'.
    pose proof (entry_progress m Htab t Ht _ _ _ _ Hb Hs) as Hp. rewrite Ey in Hp.
    assert (Hl : over m t (skf lx y) /\ c_sc (skf lx y) = e_state y /\ c_cur (skf lx y) = e_end y).
    { destruct Hk as [->| ->]; cbn; repeat split; apply Hov. }
    destruct Hl as (L1 & L2 & L3).
    apply (adv_trans lx (skf lx y)); [right; unfold cur; rewrite L3; exact Hp|].
    apply (IH (skf lx y) zs L1); [rewrite L3; exact Hb'|rewrite L2, L3; exact Hr].
  Qed.

  Lemma buffer_next_adv lx ys lx' : Inv lx ys -> c_buffer_next lx = Ok lx' -> adv lx lx'.
  Proof using Htab Ht.
    intros HI. pose proof HI as [Hov Hb Hs _ _ _]. unfold c_buffer_next. destruct (c_buf lx).
    - intros H. injection H as <-. apply adv_refl.
    - rewrite (buffer_loop_spec m Htab t ys (fuel_of lx) _ lx _ _ Hs (stream_fuel m Htab t Ht lx ys Hov Hb Hs) Hov).
      destruct (first_kept (c_filter lx) ys) as [sk o] eqn:EF. intros H. injection H as <-.
      destruct (first_kept_split _ _ _ _ EF) as (Eys & _ & _).
      destruct (set_buf_opt_pos (if pos_eqb (c_ps lx) (c_cur lx) then fold_left skip_all sk lx else lx)
                                (option_map (fun xr => buf_of (fst xr)) o)) as (_ & _ & P3).
      unfold adv, cur. rewrite P3. destruct (pos_eqb (c_ps lx) (c_cur lx)); [|left; reflexivity].
      rewrite Eys in Hs. exact (fold_skip_adv skip_all (or_introl eq_refl) sk lx _ Hov Hb Hs).
  Qed.

  Lemma peek_adv lx ys o lx' : Inv lx ys -> c_peek lx = Ok (o, lx') -> adv lx lx'.
  Proof using Htab Ht.
    intros HI. unfold c_peek. destruct (c_at_end lx); [intros H; injection H as _ <-; apply adv_refl|].
    destruct (c_buffer_next lx) as [l| |] eqn:E; cbn [bind]; try discriminate.
    intros H. injection H as _ <-. exact (buffer_next_adv lx ys l HI E).
  Qed.

  (** a delivery moves the cursor forwards; an exhausted [next] does not move it backwards *)
  Lemma next_adv lx ys o lx' : Inv lx ys -> c_next lx = Ok (o, lx') ->
    adv lx lx' /\ (o <> None -> cur lx < cur lx').
  Proof using Htab Ht.
    intros HI E. destruct (kept (c_filter lx) ys) as [|x s] eqn:Ek.
    - destruct (next_nil m Htab t Ht lx ys HI Ek) as (l & E' & _). rewrite E in E'. injection E' as Eo El. subst o l.
      split; [|intros H; contradiction H; reflexivity].
      unfold c_next in E. destruct (c_at_end lx); [injection E as <-; apply adv_refl|].
      pose proof HI as [Hov Hb Hs Hbuf _ _].
      destruct (c_buf lx) as [b|] eqn:Eb.
      + destruct Hbuf as (sk & x & rest & Hfk & _). rewrite (kept_first _ _ _ _ Hfk) in Ek. discriminate Ek.
      + rewrite (next_loop_spec m Htab t ys (fuel_of lx) _ lx Hs (stream_fuel m Htab t Ht lx ys Hov Hb Hs) Hov) in E.
        destruct (first_kept (c_filter lx) ys) as [sk [[x rest]|]] eqn:EF; [rewrite (kept_first _ _ _ _ EF) in Ek; discriminate Ek|].
        injection E as <-. destruct (first_kept_split _ _ _ _ EF) as (Eys & _ & _). rewrite app_nil_r in Eys. subst sk.
        rewrite <- (app_nil_r ys) in Hs.
        destruct (pos_eqb (c_ps lx) (c_cur lx)).
        * exact (fold_skip_adv skip_all (or_introl eq_refl) ys lx [] Hov Hb Hs).
        * exact (fold_skip_adv skip_cur (or_intror eq_refl) ys lx [] Hov Hb Hs).
    - destruct (next_cons m Htab t Ht lx ys x s HI Ek) as (l & ys' & E' & _ & _ & _ & _ & _ & Hc & _ & _ & Hprog).
      rewrite E in E'. injection E' as Eo El. subst o l.
      pose proof HI as [_ Hb Hs _ _ _].
      assert (Hin : In x ys) by (apply (kept_In (c_filter lx)); rewrite Ek; left; reflexivity).
      pose proof (stream_start_ge m Htab t Ht _ _ _ Hb Hs x Hin).
      assert (L : cur lx < cur lx') by (unfold cur; rewrite Hc; lia).
      split; [right; exact L|intros _; exact L].
  Qed.

  Lemma set_filter_adv lx ys fl o lx' : Inv lx ys -> c_set_filter lx fl = Ok (o, lx') -> adv lx lx'.
  Proof using Htab Ht.
    intros [Hov Hb Hs _ Hord Hbeh] E. unfold c_set_filter in E.
    destruct (c_buffer_next (set_buf (set_flt lx fl) None)) as [l| |] eqn:Eb; cbn [bind] in E; try discriminate. injection E as _ <-.
    assert (HI' : Inv (set_buf (set_flt lx fl) None) ys) by (apply Build_Inv; try assumption; exact I).
    exact (buffer_next_adv _ ys l HI' Eb).
  Qed.

  Lemma start_sublex_adv lx ys lx' : Inv lx ys -> c_start_sublex lx = Ok lx' -> adv lx lx'.
  Proof using Htab Ht.
    intros [Hov Hb Hs Hbuf Hord Hbeh] E. unfold c_start_sublex in E.
    set (l := mklex (c_text lx) (c_met lx) (c_sc lx) (c_filter lx) (c_rec lx) (c_buf lx) (c_cur lx) (c_cur lx) (c_cur lx)) in *.
    assert (HI' : Inv l ys).
    { apply Build_Inv; cbn [l c_text c_met c_sc c_cur c_buf c_ps c_ts c_filter]; try assumption; [split; lia|reflexivity]. }
    exact (buffer_next_adv l ys lx' HI' E).
  Qed.

  Lemma advance_to_adv p : forall fuel lx ys b lx', Inv lx ys -> c_advance_to fuel lx p = Ok (b, lx') -> adv lx lx'.
  Proof using Htab Ht.
    induction fuel as [|f IH]; intros lx ys b lx' HI E; cbn [c_advance_to] in E; [discriminate|].
    destruct (lexer_ops_total m Htab t Ht lx ys None HI) as ((o & l1 & y1 & E1 & HI1) & _). rewrite E1 in E. cbn [bind] in E.
    destruct (next_adv lx ys o l1 HI E1) as [L _].
    destruct o as [tk|].
    - destruct (p tk); [injection E as _ <-; exact L|]. exact (adv_trans _ _ _ L (IH l1 y1 b lx' HI1 E)).
    - injection E as _ <-. exact L.
  Qed.

  Lemma recover_loop_adv r : forall fuel lx ys st b lx' st', Inv lx ys ->
    recover_loop fuel r lx st = (Ok (b, lx'), st') -> adv lx lx'.
  Proof using Htab Ht.
    induction fuel as [|fu IH]; intros lx ys st b lx' st' HI E; cbn [recover_loop] in E; [discriminate|].
    destruct (lexer_ops_total m Htab t Ht lx ys None HI) as (_ & (o & l1 & y1 & E1 & HI1) & _). rewrite E1 in E.
    pose proof (peek_adv lx ys o l1 HI E1) as L1.
    destruct o as [tk|]; [|injection E as _ <- _; exact L1].
    destruct (rec_call st r tk) as [st1 b1]. destruct b1; [injection E as _ <- _; exact L1|].
    destruct (lexer_ops_total m Htab t Ht l1 y1 None HI1) as ((o2 & l2 & y2 & E2 & HI2) & _). rewrite E2 in E.
    destruct (next_adv l1 y1 o2 l2 HI1 E2) as [L2 _].
    exact (adv_trans _ _ _ L1 (adv_trans _ _ _ L2 (IH l2 y2 st1 b lx' st' HI2 E))).
  Qed.

  Lemma advance_to_recover_adv lx ys st b lx' st' : Inv lx ys ->
    advance_to_recover lx st = (Ok (b, lx'), st') -> adv lx lx'.
  Proof using Htab Ht.
    intros HI. unfold advance_to_recover. destruct (c_rec lx) as [r|]; [intros E; exact (recover_loop_adv r _ lx ys st b lx' st' HI E)|].
    intros E. injection E as _ <- _. apply adv_refl.
  Qed.

  (** the recovery scan never runs out of the lexer's own fuel *)
  Lemma recover_loop_fuel r : forall s fuel lx ys st, Inv lx ys -> kept (c_filter lx) ys = s -> length s < fuel ->
    fst (recover_loop fuel r lx st) <> Fuel.
  Proof using Htab Ht.
    induction s as [|x s IH]; intros fuel lx ys st HI Hk Hf; (destruct fuel as [|fu]; [cbn in Hf; lia|]); cbn [recover_loop].
    - destruct (peek_nil m Htab t Ht lx ys HI Hk) as (l & yl & E & _). rewrite E. discriminate.
    - destruct (peek_cons m Htab t Ht lx ys x s HI Hk) as (l1 & y1 & E1 & HI1 & Hf1 & _ & Hk1). rewrite E1.
      destruct (rec_call st r (e_tok x)) as [st1 b1]. destruct b1; [discriminate|].
      pose proof Hk1 as Hk1'. rewrite <- Hf1 in Hk1'.
      destruct (next_cons m Htab t Ht l1 y1 x s HI1 Hk1') as (l2 & y2 & E2 & HI2 & Hf2 & _ & Hk2 & _). rewrite E2.
      apply (IH fu l2 y2 st1 HI2); [rewrite Hf2; exact Hk2|cbn [length] in Hf; lia].
  Qed.

  Lemma advance_to_recover_fuel lx ys st : Inv lx ys -> fst (advance_to_recover lx st) <> Fuel.
  Proof using Htab Ht.
    intros HI. unfold advance_to_recover. destruct (c_rec lx) as [r|]; [|discriminate].
    apply (recover_loop_fuel r _ (fuel_of lx) lx ys st HI eq_refl). exact (kept_length_fuel m Htab t Ht lx ys HI).
  Qed.
End Mono.

(** * Fuel needed *)

(** nesting depth in interpreter steps (how much fuel the combinators themselves use up on the
    way to the leaves); the list combinators wrap their item three levels deep *)
Fixpoint tdepth (g : G) : nat :=
  match g with
  | GEmpty | GOne _ | GAny _ | GAnyIndex _ | GSeq _ | GSeqCount _ | GPred _ | GEot | GUserFail | GProbe _ => 0
  | GLeft a b | GRight a b | GBoth a b | GEither a b
  | GRepeatUntil _ _ a b | GRepeatCountUntil _ _ a b | GIntersperse _ _ a b | GIntersperseCount _ _ a b =>
    S (Nat.max (tdepth a) (tdepth b))
  | GImplies a b | GAntecedent a b | GConsequent a b | GCondImplies a _ b => S (Nat.max (S (tdepth a)) (tdepth b))
  | GCenter a b d | GIntersperseUntil _ _ a b d | GIntersperseCountUntil _ _ a b d =>
    S (Nat.max (tdepth a) (Nat.max (tdepth b) (tdepth d)))
  | GMap _ a | GDiscard a | GText a | GSpanned a | GSub a | GMaybe a | GCond _ a
  | GFilterWith _ a | GUnfiltered a | GRaw a | GUnrec a | GStabilize a | GCtxPush _ a | GSomeOf a | GUpTo a _
  | GRecover _ a | GRecoverDef _ a | GRecoverDelayed _ a | GRecoverDefDelayed _ a | GRecoverWith _ _ a
  | GRepeat _ _ a | GRepeatCount _ _ a | GIntersperseDef _ _ a _
  | GBracket _ a _ _ | GBracketDef _ a _ _ | GBracketIdx _ a _ _ | GBracketDefIdx _ a _ _ => S (tdepth a)
  | GRequireIf _ a => S (S (tdepth a))
  | GList a _ _ | GListB _ _ a _ _ => 6 + tdepth a
  | GListDef a _ _ | GListBDef _ _ a _ _ => 5 + tdepth a
  end.

Section Term.
  Variable m : metrics.
  Hypothesis Htab : 1 <= tabw m.
  Variable t : text.
  Hypothesis Ht : wf_text t.
  Local Notation Inv := (Inv m t).

  Definition rem (l : clexer) : nat := blen t - cur l.

  Lemma rem_adv a b yb : Inv b yb -> adv a b -> rem b <= rem a.
  Proof. intros HI H. pose proof (adv_le m Htab _ _ H). pose proof (cur_le_blen m Htab t b yb HI). unfold rem. lia. Qed.

  Lemma rem_strict a b yb : Inv b yb -> cur a < cur b -> rem b < rem a.
  Proof. intros HI H. pose proof (cur_le_blen m Htab t b yb HI). unfold rem. lia. Qed.

  (** a parser consumes at least one token whenever it succeeds (on lexers in the scan) *)
  Definition progress (a : G) : Prop :=
    forall f l ys c st v l' st', Inv l ys -> run f a l c st = (ROk v l', st') -> cur l < cur l'.

  (** every repetition body makes progress *)
  Fixpoint rep_ok (g : G) : Prop :=
    match g with
    | GEmpty | GOne _ | GAny _ | GAnyIndex _ | GSeq _ | GSeqCount _ | GPred _ | GEot | GUserFail | GProbe _ => True
    | GLeft a b | GRight a b | GBoth a b | GEither a b
    | GImplies a b | GAntecedent a b | GConsequent a b | GCondImplies a _ b => rep_ok a /\ rep_ok b
    | GCenter a b d => rep_ok a /\ rep_ok b /\ rep_ok d
    | GMap _ a | GDiscard a | GText a | GSpanned a | GSub a | GMaybe a | GRequireIf _ a | GCond _ a
    | GFilterWith _ a | GUnfiltered a | GRaw a | GUnrec a | GStabilize a | GCtxPush _ a | GSomeOf a | GUpTo a _
    | GRecover _ a | GRecoverDef _ a | GRecoverDelayed _ a | GRecoverDefDelayed _ a | GRecoverWith _ _ a
    | GBracket _ a _ _ | GBracketDef _ a _ _ | GBracketIdx _ a _ _ | GBracketDefIdx _ a _ _
    | GList a _ _ | GListB _ _ a _ _ | GListDef a _ _ | GListBDef _ _ a _ _ => rep_ok a
    | GRepeat _ _ a | GRepeatCount _ _ a | GIntersperseDef _ _ a _ => progress a /\ rep_ok a
    | GRepeatUntil _ _ s a | GRepeatCountUntil _ _ s a => progress a /\ rep_ok s /\ rep_ok a
    | GIntersperse _ _ a s | GIntersperseCount _ _ a s => progress a /\ rep_ok a /\ rep_ok s
    | GIntersperseUntil _ _ st a s | GIntersperseCountUntil _ _ st a s => progress a /\ rep_ok st /\ rep_ok a /\ rep_ok s
    end.

  (** the result of a run that did not run out of fuel; a returned lexer stands in the scan, no
      earlier than the lexer the parser was given *)
  Definition tm (lx : clexer) (r : R) : Prop :=
    match r with
    | (ROk _ lx', _) => exists ys', Inv lx' ys' /\ adv lx lx'
    | (RFuel, _) => False
    | _ => True
    end.

  Lemma tm_ok lx v l ys st : Inv l ys -> adv lx l -> tm lx (ROk v l, st).
  Proof. intros H A. exists ys. split; assumption. Qed.

  Lemma tm_weaken lx l r : adv lx l -> tm l r -> tm lx r.
  Proof.
    intros A. destruct r as [[v l'|e| |] st]; cbn [tm]; intros H; try exact H.
    destruct H as (ys & HI & A'). exists ys. split; [exact HI|exact (adv_trans m Htab _ _ _ A A')].
  Qed.

  Lemma tm_on_ok lx r k : tm lx r ->
    (forall v l st' ys, Inv l ys -> adv lx l -> tm l (k v l st')) -> tm lx (on_ok r k).
  Proof.
    destruct r as [[v l|e| |] st']; cbn [tm on_ok]; intros H Hk; try exact H.
    destruct H as (ys & HI & A). exact (tm_weaken lx l _ A (Hk v l st' ys HI A)).
  Qed.

  Lemma tm_map_val lx f r : tm lx r -> tm lx (map_val f r).
  Proof. destruct r as [[v l|e| |] st']; cbn [tm map_val]; intros H; exact H. Qed.

  (** lifted lexer operations *)
  Lemma tm_next lx ys st (k : option tok * clexer -> R) : Inv lx ys ->
    (forall o l yl, Inv l yl -> adv lx l -> (o <> None -> cur lx < cur l) -> c_rec l = c_rec lx -> tm l (k (o, l))) ->
    tm lx (lift (c_next lx) st k).
  Proof using Htab Ht.
    intros HI Hk. destruct (lexer_ops_total m Htab t Ht lx ys None HI) as ((o & l & yl & E & HI') & _).
    rewrite E. cbn [lift]. destruct (next_adv m Htab t Ht lx ys o l HI E) as [A S].
    exact (tm_weaken lx l _ A (Hk o l yl HI' A S (c_next_rec _ _ _ E))).
  Qed.

  Lemma tm_peek lx ys st (k : option tok * clexer -> R) : Inv lx ys ->
    (forall l yl, Inv l yl -> adv lx l -> c_rec l = c_rec lx -> c_filter l = c_filter lx ->
        match kept (c_filter lx) ys with
        | [] => kept (c_filter lx) yl = [] -> tm l (k (None, l))
        | x :: s => kept (c_filter lx) yl = x :: s -> tm l (k (Some (e_tok x), l))
        end) -> tm lx (lift (c_peek lx) st k).
  Proof using Htab Ht.
    intros HI Hk. destruct (kept (c_filter lx) ys) as [|x s] eqn:Ek.
    - destruct (peek_nil m Htab t Ht lx ys HI Ek) as (l & yl & E & HI' & Hf & Hr & Hk'). rewrite E. cbn [lift].
      pose proof (peek_adv m Htab t Ht lx ys _ l HI E) as A. exact (tm_weaken lx l _ A (Hk l yl HI' A Hr Hf Hk')).
    - destruct (peek_cons m Htab t Ht lx ys x s HI Ek) as (l & yl & E & HI' & Hf & Hr & Hk'). rewrite E. cbn [lift].
      pose proof (peek_adv m Htab t Ht lx ys _ l HI E) as A. exact (tm_weaken lx l _ A (Hk l yl HI' A Hr Hf Hk')).
  Qed.

  Lemma tm_peek' lx ys st (k : option tok * clexer -> R) : Inv lx ys ->
    (forall o l yl, Inv l yl -> adv lx l -> tm l (k (o, l))) -> tm lx (lift (c_peek lx) st k).
  Proof using Htab Ht.
    intros HI Hk. apply (tm_peek lx ys st k HI). intros l yl HI' A Hr Hf.
    destruct (kept (c_filter lx) ys); intros _; apply (Hk _ l yl HI' A).
  Qed.

  Lemma tm_set_filter lx ys fl st (k : option fspec * clexer -> R) : Inv lx ys ->
    (forall o l yl, Inv l yl -> adv lx l -> tm l (k (o, l))) -> tm lx (lift (c_set_filter lx fl) st k).
  Proof using Htab Ht.
    intros HI Hk. destruct (lexer_ops_total m Htab t Ht lx ys fl HI) as (_ & _ & (o & l & yl & E & HI') & _).
    rewrite E. cbn [lift]. pose proof (set_filter_adv m Htab t Ht lx ys fl o l HI E) as A. exact (tm_weaken lx l _ A (Hk o l yl HI' A)).
  Qed.

  Lemma tm_sublex lx ys st (k : clexer -> R) : Inv lx ys ->
    (forall l yl, Inv l yl -> adv lx l -> c_rec l = c_rec lx -> tm l (k l)) -> tm lx (lift (c_start_sublex lx) st k).
  Proof using Htab Ht.
    intros HI Hk. destruct (lexer_ops_total m Htab t Ht lx ys None HI) as (_ & _ & _ & (l & yl & E & HI') & _).
    rewrite E. cbn [lift]. pose proof (start_sublex_adv m Htab t Ht lx ys l HI E) as A.
    exact (tm_weaken lx l _ A (Hk l yl HI' A (c_start_sublex_rec _ _ E))).
  Qed.

  Lemma tm_advance_to lx ys p st (k : bool * clexer -> R) : Inv lx ys ->
    (forall b l yl, Inv l yl -> adv lx l -> c_rec l = c_rec lx -> tm l (k (b, l))) -> tm lx (lift (c_advance_to (fuel_of lx) lx p) st k).
  Proof using Htab Ht.
    intros HI Hk. pose proof (c_advance_to_spec m Htab t Ht p _ (fuel_of lx) lx ys HI eq_refl (kept_length_fuel m Htab t Ht lx ys HI)) as H.
    destruct (split_first p (kept (c_filter lx) ys)) as [[[pre x] q]|]; destruct H as (l & yl & E & HI' & _); rewrite E; cbn [lift];
      pose proof (advance_to_adv m Htab t Ht p _ lx ys _ l HI E) as A;
      exact (tm_weaken lx l _ A (Hk _ l yl HI' A (c_advance_to_rec _ _ _ _ _ E))).
  Qed.

  (** a step that strictly advances *)
  Definition tms (lx : clexer) (r : R) : Prop :=
    match r with
    | (ROk _ lx', _) => exists ys', Inv lx' ys' /\ cur lx < cur lx'
    | (RFuel, _) => False
    | _ => True
    end.

  (** * The repetition loops: fuel above the bytes left suffices. All lexers are descendants of [base] *)
  Lemma tm_opt base : forall n hi stop step vals l0 ys st, Inv l0 ys -> adv base l0 -> rem l0 < n ->
    (forall l yl s, Inv l yl -> adv base l -> tms l (step l s)) ->
    (forall sp, stop = Some sp -> forall l yl s, Inv l yl -> adv base l -> tm l (sp l s)) ->
    tm l0 (opt_loop n hi stop step vals l0 st).
  Proof using Htab.
    induction n as [|n IH]; intros hi stop step vals l0 ys st HI Ab Hn Hstep Hstop; [lia|]. cbn [opt_loop].
    destruct (lt_opt (length vals) hi); [|exact (tm_ok _ _ _ _ _ HI (adv_refl _))].
    assert (Hgo : forall s0, tm l0 match step l0 s0 with
                                  | (ROk v lx', st') =>
                                    let vals' := vals ++ [v] in
                                    if ge_opt (length vals') hi then (ROk (VList vals') lx', st')
                                    else opt_loop n hi stop step vals' lx' st'
                                  | (RErr _, st') => (ROk (VList vals) l0, st')
                                  | r => r
                                  end).
    { intros s0. pose proof (Hstep l0 ys s0 HI Ab) as Hs. destruct (step l0 s0) as [[v l|e| |] st']; cbn [tms] in Hs; try exact Hs.
      - destruct Hs as (yl & Hl & S). assert (A : adv l0 l) by (right; exact S). cbn zeta.
        destruct (ge_opt _ hi); [exact (tm_ok _ _ _ _ _ Hl A)|].
        apply (tm_weaken l0 l _ A). apply (IH hi stop step _ l yl st' Hl (adv_trans m Htab _ _ _ Ab A)); [|exact Hstep|exact Hstop].
        pose proof (rem_strict l0 l yl Hl S). lia.
      - exact (tm_ok _ _ _ _ _ HI (adv_refl _)). }
    destruct stop as [sp|]; [|apply Hgo].
    pose proof (Hstop sp eq_refl l0 ys st HI Ab) as Hs. destruct (sp l0 st) as [[v l|e| |] st']; cbn [tm] in Hs; try exact Hs.
    - exact (tm_ok _ _ _ _ _ HI (adv_refl _)).
    - apply Hgo.
  Qed.

  Lemma tm_mand base : forall n lo stop step vals l0 ys st k, Inv l0 ys -> adv base l0 -> rem l0 < n ->
    (forall l yl s, Inv l yl -> adv base l -> tms l (step l s)) ->
    (forall sp, stop = Some sp -> forall l yl s, Inv l yl -> adv base l -> tm l (sp l s)) ->
    (forall vs l yl s, Inv l yl -> adv l0 l -> tm l (k vs l s)) ->
    tm l0 (mand_loop n lo stop step vals l0 st k).
  Proof using Htab.
    induction n as [|n IH]; intros lo stop step vals l0 ys st k HI Ab Hn Hstep Hstop Hk; [lia|]. cbn [mand_loop].
    destruct (length vals <? lo); [|exact (Hk vals l0 ys st HI (adv_refl _))].
    assert (Hgo : forall s0, tm l0 match step l0 s0 with
                                  | (ROk v lx', st') => mand_loop n lo stop step (vals ++ [v]) lx' st' k
                                  | r => r
                                  end).
    { intros s0. pose proof (Hstep l0 ys s0 HI Ab) as Hs. destruct (step l0 s0) as [[v l|e| |] st']; cbn [tms] in Hs; try exact Hs.
      destruct Hs as (yl & Hl & S). assert (A : adv l0 l) by (right; exact S).
      apply (tm_weaken l0 l _ A). apply (IH lo stop step _ l yl st' k Hl (adv_trans m Htab _ _ _ Ab A)); [|exact Hstep|exact Hstop|].
      - pose proof (rem_strict l0 l yl Hl S). lia.
      - intros vs l' yl' s' Hl' A'. exact (Hk vs l' yl' s' Hl' (adv_trans m Htab _ _ _ A A')). }
    destruct stop as [sp|]; [|apply Hgo].
    pose proof (Hstop sp eq_refl l0 ys st HI Ab) as Hs. destruct (sp l0 st) as [[v l|e| |] st']; cbn [tm] in Hs; try exact Hs.
    - exact (tm_ok _ _ _ _ _ HI (adv_refl _)).
    - apply Hgo.
  Qed.

  Lemma hi_check_tm lo hi lx ys st r : Inv lx ys -> hi_check lo hi lx st = Some r -> tm lx r.
  Proof.
    intros HI. unfold hi_check. destruct hi as [h|]; [|discriminate].
    destruct (h <? lo); [intros H; injection H as <-; exact I|].
    destruct (h =? 0); [intros H; injection H as <-; exact (tm_ok _ _ _ _ _ HI (adv_refl _))|discriminate].
  Qed.

  Lemma step_tms runf a s c base : 
    (forall l yl s0, Inv l yl -> adv base l -> tms l (runf a l c s0)) ->
    (forall l yl s0, Inv l yl -> adv base l -> tm l (runf s l c s0)) ->
    forall l yl s0, Inv l yl -> adv base l -> tms l (right_of runf s a c l s0).
  Proof using Htab.
    intros Ha Hs l yl s0 Hl Ab. unfold right_of. pose proof (Hs l yl s0 Hl Ab) as H1.
    destruct (runf s l c s0) as [[v1 l1|e1| |] st1]; cbn [tm] in H1; cbn [on_ok tms]; try exact H1.
    destruct H1 as (y1 & Hl1 & A1). pose proof (Ha l1 y1 st1 Hl1 (adv_trans m Htab _ _ _ Ab A1)) as H2.
    destruct (runf a l1 c st1) as [[v2 l2|e2| |] st2]; cbn [tms] in H2 |- *; try exact H2.
    destruct H2 as (y2 & Hl2 & S2). exists y2. split; [exact Hl2|]. pose proof (adv_le m Htab _ _ A1). lia.
  Qed.

  (** first item, then "separator then item" steps: the item makes progress *)
  Lemma tm_intersperse runf n lo hi a s lx ys c st : Inv lx ys -> rem lx < n ->
    (forall l yl s0, Inv l yl -> adv lx l -> tms l (runf a l c s0)) ->
    (forall l yl s0, Inv l yl -> adv lx l -> tm l (runf s l c s0)) ->
    tm lx (run_intersperse runf n lo hi a s lx c st).
  Proof using Htab.
    intros HI Hn Ha Hs. unfold run_intersperse.
    destruct (hi_check lo hi lx st) as [r|] eqn:Eh; [exact (hi_check_tm _ _ _ _ _ _ HI Eh)|].
    pose proof (step_tms runf a s c lx Ha Hs) as Hstep.
    pose proof (Ha lx ys st HI (adv_refl lx)) as H0. destruct (runf a lx c st) as [[v l|e| |] st']; cbn [tms] in H0; cbn [tm]; try exact H0.
    - destruct H0 as (yl & Hl & S). assert (A : adv lx l) by (right; exact S).
      apply (tm_weaken lx l _ A). pose proof (rem_strict lx l yl Hl S) as Hr.
      apply (tm_mand lx n lo None _ [v] l yl st'); [exact Hl|exact A|lia|exact Hstep|discriminate|].
      intros vs l' yl' s' Hl' A'. apply (tm_opt lx n hi None _ vs l' yl' s'); [exact Hl'|exact (adv_trans m Htab _ _ _ A A')| |exact Hstep|discriminate].
      pose proof (rem_adv l l' yl' Hl' A'). lia.
    - destruct (lo =? 0); [exact (tm_ok _ _ _ _ _ HI (adv_refl _))|exact I].
  Qed.

  Lemma tm_intersperse_until runf n lo hi sg a s lx ys c st : Inv lx ys -> rem lx < n ->
    (forall l yl s0, Inv l yl -> adv lx l -> tm l (runf sg l c s0)) ->
    (forall l yl s0, Inv l yl -> adv lx l -> tms l (runf a l c s0)) ->
    (forall l yl s0, Inv l yl -> adv lx l -> tm l (runf s l c s0)) ->
    tm lx (run_intersperse_until runf n lo hi sg a s lx c st).
  Proof using Htab.
    intros HI Hn Hg Ha Hs. unfold run_intersperse_until.
    destruct (hi_check lo hi lx st) as [r|] eqn:Eh; [exact (hi_check_tm _ _ _ _ _ _ HI Eh)|].
    pose proof (step_tms runf a s c lx Ha Hs) as Hstep.
    assert (Hstop : forall sp, Some (fun l st0 => runf sg l c st0) = Some sp -> forall l yl s0, Inv l yl -> adv lx l -> tm l (sp l s0)).
    { intros sp E l yl s0 Hl A. injection E as <-. exact (Hg l yl s0 Hl A). }
    pose proof (Hg lx ys st HI (adv_refl lx)) as Hg0. destruct (runf sg lx c st) as [[v0 l0|e0| |] st0]; cbn [tm] in Hg0; try exact Hg0.
    - exact (tm_ok _ _ _ _ _ HI (adv_refl _)).
    - pose proof (Ha lx ys st0 HI (adv_refl lx)) as H0. destruct (runf a lx c st0) as [[v l|e| |] st']; cbn [tms] in H0; cbn [tm]; try exact H0.
      + destruct H0 as (yl & Hl & S). assert (A : adv lx l) by (right; exact S).
        apply (tm_weaken lx l _ A). pose proof (rem_strict lx l yl Hl S) as Hr.
        apply (tm_mand lx n lo _ _ [v] l yl st'); [exact Hl|exact A|lia|exact Hstep|exact Hstop|].
        intros vs l' yl' s' Hl' A'. apply (tm_opt lx n hi _ _ vs l' yl' s'); [exact Hl'|exact (adv_trans m Htab _ _ _ A A')| |exact Hstep|exact Hstop].
        pose proof (rem_adv l l' yl' Hl' A'). lia.
      + destruct (lo =? 0); [exact (tm_ok _ _ _ _ _ HI (adv_refl _))|exact I].
  Qed.

  Lemma tm_count_of lx r : tm lx r -> tm lx (count_of r).
  Proof. unfold count_of. apply tm_map_val. Qed.

  (** stabilize: the first retry may start where the parser started; every later one only after the
      cursor has moved *)
  Lemma tm_stab runf a c base : (forall l yl c' s, Inv l yl -> adv base l -> tm l (runf a l c' s)) ->
    forall n att lx ys res, Inv lx ys -> adv base lx -> tm lx res ->
    rem lx + (if att =? 0 then 2 else 1) <= n ->
    tm base (stab_loop runf n att a c lx res).
  Proof using Htab Ht.
    intros Ha. induction n as [|n IH]; intros att lx ys res HI Ab Hr Hn; [destruct (att =? 0); lia|]. cbn [stab_loop].
    destruct res as [[v l|e| |] st]; cbn [tm] in Hr |- *; try exact Hr.
    - destruct Hr as (yl & Hl & A). exists yl. split; [exact (Inv_set_rec m t l yl None Hl)|].
      exact (adv_trans m Htab _ _ _ Ab A).
    - destruct (c_rec lx) as [r|] eqn:Er; [|exact I].
      pose proof (advance_to_recover_safe m Htab t Ht lx ys st HI) as Hs.
      pose proof (advance_to_recover_fuel m Htab t Ht lx ys st HI) as Hf.
      destruct (advance_to_recover lx st) as [[[b lx1]| |] st1] eqn:Ear; try exact I; [|exact (Hf eq_refl)].
      destruct Hs as (y1 & HI1 & _). pose proof (advance_to_recover_adv m Htab t Ht lx ys st b lx1 st1 HI Ear) as A1.
      destruct b; [|exact I].
      destruct (0 <? att) eqn:Eatt; cbn [andb].
      + destruct (pos_eqb_spec (c_cursor_pos lx1) (c_cursor_pos lx)) as [Eq|Ne]; [exact I|].
        (* the cursor moved: strictly forwards *)
        assert (S1 : cur lx < cur lx1) by (destruct A1 as [E1|L1]; [contradiction Ne|exact L1]).
        apply (IH (S att) lx1 y1 _ HI1 (adv_trans m Htab _ _ _ Ab A1) (Ha lx1 y1 _ st1 HI1 (adv_trans m Htab _ _ _ Ab A1))).
        pose proof (rem_strict lx lx1 y1 HI1 S1). apply Nat.ltb_lt in Eatt.
        destruct (att =? 0) eqn:E0; [apply Nat.eqb_eq in E0; lia|]. cbn [Nat.eqb]. lia.
      + apply (IH (S att) lx1 y1 _ HI1 (adv_trans m Htab _ _ _ Ab A1) (Ha lx1 y1 _ st1 HI1 (adv_trans m Htab _ _ _ Ab A1))).
        pose proof (rem_adv lx lx1 y1 HI1 A1). apply Nat.ltb_ge in Eatt. assert (att = 0) by lia. subst att. cbn [Nat.eqb] in *. lia.
  Qed.

  (** the bracket scan hands back lexers no earlier than the one it was given *)
  Lemma bracket_loop_adv base os cs ab start : forall fuel lx ys ol stack sps o cl idx, Inv lx ys -> adv base lx ->
    (match ol with Some l => adv base l | None => True end) ->
    bracket_loop fuel os cs ab start lx ol stack sps = BM o cl idx -> adv base o /\ adv base cl.
  Proof using Htab Ht.
    induction fuel as [|fu IH]; intros lx ys ol stack sps o cl idx HI Ab Hol H; cbn [bracket_loop] in H; [discriminate|].
    destruct (lexer_ops_total m Htab t Ht lx ys None HI) as (_ & (op & lx1 & y1 & Ep & HI1) & _). rewrite Ep in H.
    pose proof (adv_trans m Htab _ _ _ Ab (peek_adv m Htab t Ht lx ys op lx1 HI Ep)) as A1.
    destruct op as [tk|]; [|destruct ol as [l|]; [destruct (pts l)|]; discriminate].
    assert (Hcont : forall ol' stack' sps',
              (match ol' with Some l => adv base l | None => True end) ->
              match c_next lx1 with
              | Ok (_, lx2) => bracket_loop fu os cs ab start lx2 ol' stack' sps'
              | Panic => BPanic | Fuel => BFuel
              end = BM o cl idx -> adv base o /\ adv base cl).
    { intros ol' stack' sps' Hol' Hc.
      destruct (lexer_ops_total m Htab t Ht lx1 y1 None HI1) as ((o2 & lx2 & y2 & En & HI2) & _). rewrite En in Hc.
      destruct (next_adv m Htab t Ht lx1 y1 o2 lx2 HI1 En) as [A2 _].
      exact (IH lx2 y2 ol' stack' sps' o cl idx HI2 (adv_trans m Htab _ _ _ A1 A2) Hol' Hc). }
    destruct (position (fun k => tok_eqb (tk0 k) tk) cs) as [ci|].
    - destruct stack as [|[t0 n] rest]; [destruct (pts lx1); discriminate|].
      destruct (negb (t0 =? ci)); [destruct sps; [|destruct (pts lx1)]; discriminate|].
      destruct (1 <? n); [exact (Hcont _ _ _ Hol H)|].
      destruct rest as [|p rest'].
      + destruct ol as [l|]; [|discriminate]. injection H as <- <- _. split; [exact Hol|exact A1].
      + exact (Hcont _ _ _ Hol H).
    - destruct (position (fun k => tok_eqb (tk0 k) tk) os) as [oi|].
      + destruct (pts lx1); [|discriminate].
        assert (Hol' : match (match ol with None => Some lx1 | Some _ => ol end) with Some l => adv base l | None => True end).
        { destruct ol as [l|]; [exact Hol|exact A1]. }
        destruct stack as [|[t0 n] rest]; [exact (Hcont _ _ _ Hol' H)|].
        destruct (negb (t0 =? oi)); exact (Hcont _ _ _ Hol' H).
      + destruct (in_kinds ab tk && match ol with None => true | Some _ => false end).
        * destruct (pts lx1); discriminate.
        * exact (Hcont _ _ _ Hol H).
  Qed.

  (** the list's separator parser on a separator token: consumes it *)
  Lemma sepp_adv f sep ab c lx ys st x s : Inv lx ys -> kept (c_filter lx) ys = x :: s ->
    tok_eqb (tk0 sep) (e_tok x) = true -> 3 <= f ->
    match run f (GRecoverWith VUnit (list_rref sep ab) (GDiscard (GOne sep))) lx c st with
    | (ROk _ lx3, _) => exists y3, Inv lx3 y3 /\ c_rec lx3 = c_rec lx /\ cur lx < cur lx3
    | _ => False
    end.
  Proof using Htab Ht.
    intros HI Hk Hs Hf. destruct f as [|[|[|f3]]]; try lia.
    destruct (next_cons m Htab t Ht lx ys x s HI Hk) as (lx1 & ys1 & E1 & HI1 & _ & Hr1 & _).
    destruct (next_adv m Htab t Ht lx ys _ lx1 HI E1) as [_ S]. specialize (S ltac:(discriminate)).
    cbn [run]. rewrite E1. cbn [lift]. destruct (tok_eqb_spec (tk0 sep) (e_tok x)) as [Eq|]; [|discriminate Hs].
    rewrite <- Eq. destruct (tok_eqb_spec (tk0 sep) (tk0 sep)) as [_|N]; [|contradiction]. cbn [map_val].
    exists ys1. split; [exact HI1|]. split; [exact Hr1|exact S].
  Qed.

  (** the list loop: every round that goes on has consumed a separator *)
  Lemma tm_list_loop f a sep ab dflt c base : 3 <= f ->
    (forall l yl s, Inv l yl -> post m t (sep :: ab) true (run f (GStabilize (GRecoverWith dflt (list_rref sep ab) (GUpTo a (sep :: ab)))) l c s)) ->
    (forall l yl s, Inv l yl -> adv base l -> tm l (run f (GStabilize (GRecoverWith dflt (list_rref sep ab) (GUpTo a (sep :: ab)))) l c s)) ->
    (forall l yl s, Inv l yl -> adv base l -> tm l (run f (GStabilize (GMaybe (GUpTo a (sep :: ab)))) l c s)) ->
    forall n hi vals lx ys st k, Inv lx ys -> adv base lx -> rem lx < n ->
    (forall vs l yl s, Inv l yl -> adv base l -> tm l (k vs l s)) ->
    tm lx (list_loop (run f) n hi ab dflt (GStabilize (GRecoverWith dflt (list_rref sep ab) (GUpTo a (sep :: ab))))
            (GStabilize (GMaybe (GUpTo a (sep :: ab)))) (GRecoverWith VUnit (list_rref sep ab) (GDiscard (GOne sep))) c vals lx st k).
  Proof using Htab Ht.
    intros Hf3 Hpost Hitem Hprobe. induction n as [|n IHn]; intros hi vals lx ys st k HI Ab Hn Hk; [lia|]. cbn [list_loop].
    apply (tm_peek lx ys); [exact HI|]. intros l0 y0 HI0 A0 _ Hf0.
    pose proof (adv_trans m Htab _ _ _ Ab A0) as Ab0.
    destruct (kept (c_filter lx) ys) as [|x s] eqn:Ek; intros Hk0; [exact (Hk _ l0 y0 st HI0 Ab0)|].
    destruct (in_kinds ab (e_tok x)) eqn:Eab.
    - destruct vals as [|v0 vr]; [exact (Hk _ l0 y0 st HI0 Ab0)|].
      pose proof (Hprobe l0 y0 st HI0 Ab0) as Hp.
      destruct (run f (GStabilize (GMaybe (GUpTo a (sep :: ab)))) l0 c st) as [[pv pl|pe| |] st1]; cbn [tm] in Hp; try exact Hp.
      destruct pv; exact (Hk _ l0 y0 st1 HI0 Ab0).
    - pose proof (Hitem l0 y0 st HI0 Ab0) as Hi. pose proof (Hpost l0 y0 st HI0) as Hpo.
      destruct (run f (GStabilize (GRecoverWith dflt (list_rref sep ab) (GUpTo a (sep :: ab)))) l0 c st) as [[v l1|e| |] st1];
        cbn [tm] in Hi; cbn [post] in Hpo; try exact Hi.
      + destruct Hi as (y1' & HI1' & A1). destruct Hpo as (y1 & HI1 & _ & Hn1). clear y1' HI1'.
        pose proof (adv_trans m Htab _ _ _ Ab0 A1) as Ab1. apply (tm_weaken l0 l1 _ A1). cbn zeta.
        destruct (ge_opt _ hi); [exact (Hk _ l1 y1 st1 HI1 Ab1)|].
        apply (tm_peek l1 y1); [exact HI1|]. intros l2 y2 HI2 A2 _ Hf2.
        pose proof (adv_trans m Htab _ _ _ Ab1 A2) as Ab2.
        unfold next_in in Hn1. destruct (kept (c_filter l1) y1) as [|x2 s2] eqn:Ek1; intros Hk2; [exact (Hk _ l2 y2 st1 HI2 Ab2)|].
        destruct (in_kinds ab (e_tok x2)) eqn:Eab2; [exact (Hk _ l2 y2 st1 HI2 Ab2)|].
        destruct (c_at_end l2); [exact (Hk _ l2 y2 st1 HI2 Ab2)|].
        assert (Hsep : tok_eqb (tk0 sep) (e_tok x2) = true).
        { unfold in_kinds in Hn1, Eab2. cbn [existsb] in Hn1. rewrite Eab2, orb_false_r in Hn1. exact Hn1. }
        rewrite <- Hf2 in Hk2.
        pose proof (sepp_adv f sep ab c l2 y2 st1 x2 s2 HI2 Hk2 Hsep Hf3) as Hs.
        destruct (run f (GRecoverWith VUnit (list_rref sep ab) (GDiscard (GOne sep))) l2 c st1) as [[v3 l3|e3| |] st3]; try contradiction.
        destruct Hs as (y3 & HI3 & _ & S3). assert (A3 : adv l2 l3) by (right; exact S3).
        apply (tm_weaken l2 l3 _ A3). apply (tm_sublex l3 y3); [exact HI3|]. intros l4 y4 HI4 A4 _.
        pose proof (adv_trans m Htab _ _ _ Ab2 (adv_trans m Htab _ _ _ A3 A4)) as Ab4.
        apply (IHn hi _ l4 y4 st3 k HI4 Ab4); [|exact Hk].
        (* the cursor moved strictly past the separator *)
        pose proof (rem_strict l2 l3 y3 HI3 S3). pose proof (rem_adv l3 l4 y4 HI4 A4).
        pose proof (rem_adv lx l0 y0 HI0 A0). pose proof (rem_adv l0 l1 y1 HI1 A1). pose proof (rem_adv l1 l2 y2 HI2 A2). lia.
      + destruct e; try exact I.
        apply (tm_advance_to l0 y0); [exact HI0|]. intros b l1 y1 HI1 A1 _.
        exact (Hk _ l1 y1 st1 HI1 (adv_trans m Htab _ _ _ Ab0 A1)).
  Qed.

  Lemma tm_tms f a l ys c st : progress a -> Inv l ys -> tm l (run f a l c st) -> tms l (run f a l c st).
  Proof.
    intros Hp HI H. destruct (run f a l c st) as [[v l'|e| |] st'] eqn:E; cbn [tm tms] in *; try exact H.
    destruct H as (y' & HI' & _). exists y'. split; [exact HI'|]. exact (Hp f l ys c st v l' st' HI E).
  Qed.

  (** * Every combinator *)
  Theorem run_terminates : forall F g, pre_ok g = true -> rep_ok g ->
    forall lx ys c st, Inv lx ys -> tdepth g + rem lx + 3 <= F -> tm lx (run F g lx c st).
  Proof using Htab Ht.
    induction F as [F IHall] using lt_wf_ind. intros g Hg Hr lx ys c st HI HF.
    destruct F as [|f]; [lia|].
    (* sub-parsers: smaller depth, a lexer no earlier *)
    assert (Hsub : forall a, pre_ok a = true -> rep_ok a -> tdepth a < tdepth g ->
              forall l yl c0 s0, Inv l yl -> adv lx l -> tm l (run f a l c0 s0)).
    { intros a Ha Hra Hd l yl c0 s0 Hl A. apply (IHall f ltac:(lia) a Ha Hra l yl c0 s0 Hl).
      pose proof (rem_adv lx l yl Hl A). lia. }
    assert (Hloop : forall l yl, Inv l yl -> adv lx l -> rem l < f).
    { intros l yl Hl A. pose proof (rem_adv lx l yl Hl A). lia. }
    assert (Hrw : forall dflt r (body : clexer -> ctx -> store -> R), tm lx (body lx c st) ->
              tm lx match body lx c st with
                    | (RErr e, st1) =>
                      match send_error c e (log st1) with
                      | (_, Some e') => (RErr e', st1)
                      | (lg, None) =>
                        match advance_to_recover (set_rec lx (Some r)) (st_log st1 lg) with
                        | (Ok (true, lx'), st3) => (ROk dflt lx', st3)
                        | (Ok (false, _), st3) => (RErr ERecover, st3)
                        | (Panic, st3) => (RPanic, st3)
                        | (Fuel, st3) => (RFuel, st3)
                        end
                      end
                    | r0 => r0
                    end).
    { intros dflt r body Hb. destruct (body lx c st) as [[v l|e| |] st1]; cbn [tm] in Hb |- *; try exact Hb.
      destruct (send_error c e (log st1)) as [lg [e'|]]; [exact I|].
      pose proof (Inv_set_rec m t lx ys (Some r) HI) as HI0.
      pose proof (advance_to_recover_safe m Htab t Ht _ ys (st_log st1 lg) HI0) as Hs.
      pose proof (advance_to_recover_fuel m Htab t Ht _ ys (st_log st1 lg) HI0) as Hfu.
      destruct (advance_to_recover (set_rec lx (Some r)) (st_log st1 lg)) as [[[b lx']| |] st3] eqn:Ear; try exact I; [|exact (Hfu eq_refl)].
      destruct Hs as (y' & HI' & _). destruct b; [|exact I]. exists y'. split; [exact HI'|].
      exact (advance_to_recover_adv m Htab t Ht _ ys _ _ lx' st3 HI0 Ear). }
    assert (Hbw : forall os a cs ab okv dfl, bracket_pre os cs = true -> pre_ok a = true -> rep_ok a -> tdepth a < tdepth g ->
              tm lx
                (if (match os with [] => true | _ => false end) || (match cs with [] => true | _ => false end)
                    || negb (length os =? length cs) || negb (disjoint_kinds os cs)
                 then (RPanic, st)
                 else
                   match match_nested_brackets lx os cs ab with
                   | BPanic => (RPanic, st) | BFuel => (RFuel, st)
                   | BErr e => (RErr e, st)
                   | BM o cl idx =>
                     lift (c_next o) st (fun '(_, o1) =>
                     lift (c_start_sublex o1) st (fun inner =>
                     lift (c_next cl) st (fun '(_, cl1) =>
                     match run f a inner c st with
                     | (ROk v _, st1) => (ROk (okv v idx) cl1, st1)
                     | (RErr e, st1) =>
                       match send_error c e (log st1) with
                       | (_, Some e') => (RErr e', st1)
                       | (l, None) => (ROk (dfl idx) cl1, st_log st1 l)
                       end
                     | r => r
                     end)))
                   end)).
    { intros os a cs ab okv dfl Hpre Ha Hra Hd. unfold bracket_pre in Hpre. apply negb_true_iff in Hpre. rewrite Hpre.
      pose proof (match_nested_brackets_spec m Htab t Ht os cs ab lx ys HI) as H.
      destruct (ref_match os cs ab (span_at (c_cursor_pos lx)) (kept (c_filter lx) ys) None []) as [o ao x r ci|e].
      - destruct H as (lo & lc & E & Hlo & Hlc). rewrite E.
        unfold match_nested_brackets in E.
        destruct (bracket_loop_adv lx os cs ab _ _ lx ys None [] [] lo lc ci HI (adv_refl lx) I E) as [Alo Alc].
        destruct Hlo as (ylo & HIlo & _). destruct Hlc as (ylc & HIlc & _).
        destruct (lexer_ops_total m Htab t Ht lo ylo None HIlo) as ((o1o & o1 & yo1 & E1 & HI1) & _). rewrite E1. cbn [lift].
        destruct (next_adv m Htab t Ht lo ylo o1o o1 HIlo E1) as [A1 _].
        destruct (lexer_ops_total m Htab t Ht o1 yo1 None HI1) as (_ & _ & _ & (inner & yi & E2 & HIi) & _). rewrite E2. cbn [lift].
        pose proof (start_sublex_adv m Htab t Ht o1 yo1 inner HI1 E2) as A2.
        destruct (lexer_ops_total m Htab t Ht lc ylc None HIlc) as ((oco & cl1 & y1 & E3 & HIc) & _). rewrite E3. cbn [lift].
        destruct (next_adv m Htab t Ht lc ylc oco cl1 HIlc E3) as [A3 _].
        pose proof (adv_trans m Htab _ _ _ Alc A3) as Ac.
        pose proof (Hsub a Ha Hra Hd inner yi c st HIi (adv_trans m Htab _ _ _ Alo (adv_trans m Htab _ _ _ A1 A2))) as H0.
        destruct (run f a inner c st) as [[v l|e| |] st1]; cbn [tm] in H0 |- *; try exact H0.
        + exists y1. split; [exact HIc|exact Ac].
        + destruct (send_error c e (log st1)) as [lg [e'|]]; [exact I|]. exists y1. split; [exact HIc|exact Ac].
      - rewrite H. exact I. }
    assert (Hlw : forall lo hi item0 dflt sep ab, pre_ok item0 = true -> rep_ok item0 -> 4 + tdepth item0 <= tdepth g ->
              tm lx
                match hi with
                | Some 0 => (ROk (VList []) lx, st)
                | _ =>
                  if (match hi with Some h => h <? lo | None => false end) then (RPanic, st)
                  else
                    list_loop (run f) f hi ab dflt
                      (GStabilize (GRecoverWith dflt (list_rref sep ab) (GUpTo item0 (sep :: ab))))
                      (GStabilize (GMaybe (GUpTo item0 (sep :: ab))))
                      (GRecoverWith VUnit (list_rref sep ab) (GDiscard (GOne sep))) c [] lx st
                      (fun vals lx' st' =>
                         match (match c_rec lx with Some _ => None | None => c_rec lx' end) with
                         | Some _ => (RPanic, st')
                         | None =>
                           if length vals <? lo then
                             match send_error c (ECount (c_parse_span lx') (length vals) lo hi) (log st') with
                             | (_, Some e') => (RErr e', st')
                             | (l, None) => (ROk (VList vals) lx', st_log st' l)
                             end
                           else (ROk (VList vals) lx', st')
                         end)
                end).
    { intros lo hi item0 dflt sep ab Hi Hri Hd.
      assert (Hloopl : tm lx
                (list_loop (run f) f hi ab dflt
                      (GStabilize (GRecoverWith dflt (list_rref sep ab) (GUpTo item0 (sep :: ab))))
                      (GStabilize (GMaybe (GUpTo item0 (sep :: ab))))
                      (GRecoverWith VUnit (list_rref sep ab) (GDiscard (GOne sep))) c [] lx st
                      (fun vals lx' st' =>
                         match (match c_rec lx with Some _ => None | None => c_rec lx' end) with
                         | Some _ => (RPanic, st')
                         | None =>
                           if length vals <? lo then
                             match send_error c (ECount (c_parse_span lx') (length vals) lo hi) (log st') with
                             | (_, Some e') => (RErr e', st')
                             | (l, None) => (ROk (VList vals) lx', st_log st' l)
                             end
                           else (ROk (VList vals) lx', st')
                         end))).
      { apply (tm_list_loop f item0 sep ab dflt c lx) with (ys := ys).
        - lia.
        - intros l yl s0 Hl. apply (item_post m Htab t Ht f item0 sep ab dflt c) with (yl := yl); [|exact Hl].
          intros f' Hf' l0 yl0 c' s1 Hl0. exact (run_safe m Htab t Ht f' item0 Hi l0 yl0 c' s1 Hl0).
        - intros l yl s0 Hl A.
          apply (Hsub (GStabilize (GRecoverWith dflt (list_rref sep ab) (GUpTo item0 (sep :: ab)))) Hi Hri ltac:(cbn [tdepth]; lia) l yl c s0 Hl A).
        - intros l yl s0 Hl A.
          apply (Hsub (GStabilize (GMaybe (GUpTo item0 (sep :: ab)))) Hi Hri ltac:(cbn [tdepth]; lia) l yl c s0 Hl A).
        - exact HI.
        - apply adv_refl.
        - exact (Hloop lx ys HI (adv_refl lx)).
        - intros vs l yl s0 Hl A. destruct (match c_rec lx with Some _ => None | None => c_rec l end); [exact I|].
          destruct (length vs <? lo); [|exists yl; split; [exact Hl|apply adv_refl]].
          destruct (send_error c _ (log s0)) as [lg [e'|]]; [exact I|exists yl; split; [exact Hl|apply adv_refl]]. }
      destruct hi as [[|h]|]; [exists ys; split; [exact HI|apply adv_refl]| |].
      - destruct (S h <? lo); [exact I|exact Hloopl].
      - exact Hloopl. }
    destruct g; cbn [pre_ok] in Hg; cbn [rep_ok] in Hr; cbn [tdepth] in Hsub, Hlw, Hbw, HF; cbn [run];
      repeat match goal with H : _ && _ = true |- _ => apply andb_prop in H; destruct H end;
      repeat match goal with H : _ /\ _ |- _ => destruct H end.
    - (* empty *) exact (tm_ok _ _ _ _ _ HI (adv_refl _)).
    - (* one *) apply (tm_next lx ys); [exact HI|]. intros o l yl Hl A _ _.
      destruct o as [t0|]; [destruct (tok_eqb t0 (tk0 k)); [exact (tm_ok _ _ _ _ _ Hl (adv_refl _))|exact I]|exact I].
    - (* any *) destruct ks as [|k0 ks]; [discriminate Hg|]. apply (tm_peek' lx ys); [exact HI|]. intros o l yl Hl A.
      destruct o as [t0|]; [|exact I]. destruct (position _ (k0 :: ks)); [|exact I].
      apply (tm_next l yl); [exact Hl|]. intros o2 l2 y2 Hl2 A2 _ _. exact (tm_ok _ _ _ _ _ Hl2 (adv_refl _)).
    - (* any_index *) destruct ks as [|k0 ks]; [discriminate Hg|]. apply (tm_peek' lx ys); [exact HI|]. intros o l yl Hl A.
      destruct o as [t0|]; [|exact I]. destruct (position _ (k0 :: ks)); [|exact I].
      apply (tm_next l yl); [exact Hl|]. intros o2 l2 y2 Hl2 A2 _ _. exact (tm_ok _ _ _ _ _ Hl2 (adv_refl _)).
    - (* seq *)
      assert (Hseq : forall ks0 acc l yl, Inv l yl ->
                tm l
                  ((fix go (ks : list kind) (acc : list val) (l : clexer) : R :=
                      match ks with
                      | [] => (ROk (VList acc) l, st)
                      | k :: r =>
                        lift (c_next l) st (fun '(o, l') =>
                        match o with
                        | Some t0 => if tok_eqb t0 (tk0 k) then go r (acc ++ [VTok t0]) l'
                                     else (RErr (EUnexpected (c_parse_span lx) (c_token_span l') (ExTok (tk0 k)) (Some t0)), st)
                        | None => (RErr (EUnexpected (c_parse_span lx) (c_token_span l') (ExTok (tk0 k)) None), st)
                        end)
                      end) ks0 acc l)).
      { induction ks0 as [|k r IHk]; intros acc l yl Hl.
        - exact (tm_ok _ _ _ _ _ Hl (adv_refl _)).
        - apply (tm_next l yl); [exact Hl|]. intros o l' yl' Hl' _ _ _.
          destruct o as [t0|]; [destruct (tok_eqb t0 (tk0 k)); [exact (IHk _ l' yl' Hl')|exact I]|exact I]. }
      exact (Hseq ks [] lx ys HI).
    - (* seq_count *)
      assert (Hsc : forall ks0 cnt l yl, Inv l yl ->
                tm l
                  ((fix go (ks : list kind) (cnt : nat) (l : clexer) : R :=
                      match ks with
                      | [] => (ROk (VNat cnt) l, st)
                      | k :: r =>
                        if c_at_end l then (ROk (VNat cnt) l, st)
                        else
                          lift (c_peek l) st (fun '(o, l') =>
                          match o with
                          | Some t0 => if tok_eqb t0 (tk0 k)
                                       then lift (c_next l') st (fun '(_, l'') => go r (S cnt) l'')
                                       else (ROk (VNat cnt) l', st)
                          | None =>
                            lift (only_filtered_remain l') st (fun b =>
                            if b then (ROk (VNat cnt) l', st) else (RErr (EUnrecognized (c_parse_span lx)), st))
                          end)
                      end) ks0 cnt l)).
      { induction ks0 as [|k r IHk]; intros cnt l yl Hl.
        - exact (tm_ok _ _ _ _ _ Hl (adv_refl _)).
        - destruct (c_at_end l); [exact (tm_ok _ _ _ _ _ Hl (adv_refl _))|].
          apply (tm_peek' l yl); [exact Hl|]. intros o l' yl' Hl' _.
          destruct o as [t0|].
          + destruct (tok_eqb t0 (tk0 k)); [|exact (tm_ok _ _ _ _ _ Hl' (adv_refl _))].
            apply (tm_next l' yl'); [exact Hl'|]. intros o2 l2 y2 Hl2 _ _ _. exact (IHk _ l2 y2 Hl2).
          + unfold only_filtered_remain.
            destruct (lexer_ops_total m Htab t Ht l' yl' None Hl') as ((o2 & l2 & y2 & E2 & _) & _). rewrite E2. cbn [bind lift].
            destruct (match fst (o2, l2) with None => c_at_end (snd (o2, l2)) | Some _ => false end); [exact (tm_ok _ _ _ _ _ Hl' (adv_refl _))|exact I]. }
      exact (Hsc ks 0 lx ys HI).
    - (* pred *) apply (tm_next lx ys); [exact HI|]. intros o l yl Hl A _ _.
      destruct o as [t0|]; [destruct (peval p t0); [exact (tm_ok _ _ _ _ _ Hl (adv_refl _))|exact I]|exact I].
    - (* end_of_text *)
      assert (Hb : exists b, (if c_at_end lx then Ok true else only_filtered_remain lx) = Ok b).
      { destruct (c_at_end lx); [exists true; reflexivity|]. unfold only_filtered_remain.
        destruct (lexer_ops_total m Htab t Ht lx ys None HI) as ((o2 & l2 & y2 & E2 & _) & _). rewrite E2. cbn [bind]. eexists. reflexivity. }
      destruct Hb as [b Eb]. rewrite Eb. cbn [lift]. destruct b; [exact (tm_ok _ _ _ _ _ HI (adv_refl _))|].
      apply (tm_peek' lx ys); [exact HI|]. intros o l yl Hl _. destruct o; exact I.
    - (* left *) apply tm_on_ok; [apply (Hsub g1) with (yl := ys); try assumption; [lia|apply adv_refl]|].
      intros v l s0 yl Hl A. apply tm_map_val. apply (Hsub g2) with (yl := yl); try assumption. lia.
    - (* right *) apply tm_on_ok; [apply (Hsub g1) with (yl := ys); try assumption; [lia|apply adv_refl]|].
      intros v l s0 yl Hl A. apply (Hsub g2) with (yl := yl); try assumption. lia.
    - (* both *) apply tm_on_ok; [apply (Hsub g1) with (yl := ys); try assumption; [lia|apply adv_refl]|].
      intros v l s0 yl Hl A. apply tm_map_val. apply (Hsub g2) with (yl := yl); try assumption. lia.
    - (* center *) apply tm_on_ok; [apply (Hsub g1) with (yl := ys); try assumption; [lia|apply adv_refl]|].
      intros v l s0 yl Hl A. apply tm_on_ok; [apply (Hsub g2) with (yl := yl); try assumption; lia|].
      intros v2 l2 s2 yl2 Hl2 A2. apply tm_map_val. apply (Hsub g3) with (yl := yl2); try assumption; [lia|exact (adv_trans m Htab _ _ _ A A2)].
    - (* map *) apply tm_map_val. apply (Hsub g) with (yl := ys); try assumption; [lia|apply adv_refl].
    - (* discard *) apply tm_map_val. apply (Hsub g) with (yl := ys); try assumption; [lia|apply adv_refl].
    - (* text *) apply (tm_peek' lx ys); [exact HI|]. intros o l1 y1 Hl1 A1.
      apply tm_on_ok; [apply (Hsub g) with (yl := y1); try assumption; lia|]. intros v l s0 yl Hl A. cbn zeta.
      destruct (_ && _); [exact (tm_ok _ _ _ _ _ Hl (adv_refl _))|exact I].
    - (* spanned *) apply (tm_peek' lx ys); [exact HI|]. intros o l1 y1 Hl1 A1.
      apply tm_on_ok; [apply (Hsub g) with (yl := y1); try assumption; lia|]. intros v l s0 yl Hl A. exact (tm_ok _ _ _ _ _ Hl (adv_refl _)).
    - (* sub *) apply (tm_sublex lx ys); [exact HI|]. intros l yl Hl A _. apply (Hsub g) with (yl := yl); try assumption. lia.
    - (* either *) pose proof (Hsub g1 H H1 ltac:(lia) lx ys c st HI (adv_refl lx)) as H5.
      destruct (run f g1 lx c st) as [[v l|e| |] s1]; cbn [tm] in H5 |- *; try exact H5.
      apply (Hsub g2) with (yl := ys); try assumption; [lia|apply adv_refl].
    - (* maybe *) pose proof (Hsub g Hg Hr ltac:(lia) lx ys (ctx_unrec c) st HI (adv_refl lx)) as H1.
      destruct (run f g lx (ctx_unrec c) st) as [[v l|e| |] s1]; cbn [tm] in H1 |- *; try exact H1. exists ys. split; [exact HI|apply adv_refl].
    - (* require_if *) destruct b; [apply tm_map_val; apply (Hsub g) with (yl := ys); try assumption; [lia|apply adv_refl]|].
      apply (Hsub (GMaybe g)) with (yl := ys); try assumption; [cbn [tdepth]; lia|apply adv_refl].
    - (* cond *) destruct b; [apply tm_map_val; apply (Hsub g) with (yl := ys); try assumption; [lia|apply adv_refl]|exact (tm_ok _ _ _ _ _ HI (adv_refl _))].
    - (* implies *) apply tm_on_ok; [apply (Hsub (GMaybe g1)) with (yl := ys); try assumption; [cbn [tdepth]; lia|apply adv_refl]|].
      intros v l s0 yl Hl A. destruct v; try exact (tm_ok _ _ _ _ _ Hl (adv_refl _)). apply tm_map_val. apply (Hsub g2) with (yl := yl); try assumption. lia.
    - (* antecedent *) apply tm_on_ok; [apply (Hsub (GMaybe g1)) with (yl := ys); try assumption; [cbn [tdepth]; lia|apply adv_refl]|].
      intros v l s0 yl Hl A. destruct v; try exact (tm_ok _ _ _ _ _ Hl (adv_refl _)). apply tm_map_val. apply (Hsub g2) with (yl := yl); try assumption. lia.
    - (* consequent *) apply tm_on_ok; [apply (Hsub (GMaybe g1)) with (yl := ys); try assumption; [cbn [tdepth]; lia|apply adv_refl]|].
      intros v l s0 yl Hl A. destruct v; try exact (tm_ok _ _ _ _ _ Hl (adv_refl _)). apply tm_map_val. apply (Hsub g2) with (yl := yl); try assumption. lia.
    - (* cond_implies *) apply tm_on_ok; [apply (Hsub (GMaybe g1)) with (yl := ys); try assumption; [cbn [tdepth]; lia|apply adv_refl]|].
      intros v l s0 yl Hl A. destruct v; try exact (tm_ok _ _ _ _ _ Hl (adv_refl _)). destruct (vpeval p v); [|exact (tm_ok _ _ _ _ _ Hl (adv_refl _))].
      apply tm_map_val. apply (Hsub g2) with (yl := yl); try assumption. lia.
    - (* filter_with *) apply (tm_set_filter lx ys); [exact HI|]. intros old l1 y1 Hl1 A1.
      apply tm_on_ok; [apply (Hsub g) with (yl := y1); try assumption; lia|]. intros v l s0 yl Hl A.
      apply (tm_set_filter l yl); [exact Hl|]. intros o2 l2 y2 Hl2 A2. exact (tm_ok _ _ _ _ _ Hl2 (adv_refl _)).
    - (* unfiltered *) apply (tm_set_filter lx ys); [exact HI|]. intros old l1 y1 Hl1 A1.
      apply tm_on_ok; [apply (Hsub g) with (yl := y1); try assumption; lia|]. intros v l s0 yl Hl A.
      apply (tm_set_filter l yl); [exact Hl|]. intros o2 l2 y2 Hl2 A2. exact (tm_ok _ _ _ _ _ Hl2 (adv_refl _)).
    - (* raw *) apply (Hsub g) with (yl := ys); try assumption; [lia|apply adv_refl].
    - (* unrecoverable *) apply (Hsub g) with (yl := ys); try assumption; [lia|apply adv_refl].
    - (* recover *) apply (Hrw VNone r (fun l c' s => some_of (run f g l c' s))). apply tm_map_val. apply (Hsub g) with (yl := ys); try assumption; [lia|apply adv_refl].
    - (* recover_default *) apply (Hrw VDflt r (fun l c' s => run f g l c' s)). apply (Hsub g) with (yl := ys); try assumption; [lia|apply adv_refl].
    - (* recover delayed *) apply (Hrw VNone r (fun l c' s => some_of (run f g l c' s))). apply tm_map_val. apply (Hsub g) with (yl := ys); try assumption; [lia|apply adv_refl].
    - (* recover_default delayed *) apply (Hrw VDflt r (fun l c' s => run f g l c' s)). apply (Hsub g) with (yl := ys); try assumption; [lia|apply adv_refl].
    - (* stabilize *)
      apply (tm_stab (run f) g c lx) with (ys := ys); [|exact HI|apply adv_refl| |].
      + intros l yl c' s0 Hl A. apply (Hsub g) with (yl := yl); try assumption. lia.
      + apply (Hsub g) with (yl := ys); try assumption; [lia|apply adv_refl].
      + cbn [Nat.eqb]. pose proof (Hloop lx ys HI (adv_refl lx)). lia.
    - (* repeat *) apply (tm_intersperse (run f) f lo hi g GEmpty lx ys c st HI (Hloop lx ys HI (adv_refl lx))).
      + intros l yl s0 Hl A. apply (tm_tms f g l yl c s0); [assumption|exact Hl|]. apply (Hsub g) with (yl := yl); try assumption. lia.
      + intros l yl s0 Hl A. exact (Hsub GEmpty eq_refl I ltac:(cbn [tdepth]; lia) l yl c s0 Hl A).
    - (* repeat_count *) apply tm_count_of. apply (tm_intersperse (run f) f lo hi g GEmpty lx ys c st HI (Hloop lx ys HI (adv_refl lx))).
      + intros l yl s0 Hl A. apply (tm_tms f g l yl c s0); [assumption|exact Hl|]. apply (Hsub g) with (yl := yl); try assumption. lia.
      + intros l yl s0 Hl A. exact (Hsub GEmpty eq_refl I ltac:(cbn [tdepth]; lia) l yl c s0 Hl A).
    - (* repeat_until *) apply (tm_intersperse_until (run f) f lo hi g1 g2 GEmpty lx ys c st HI (Hloop lx ys HI (adv_refl lx))).
      + intros l yl s0 Hl A. apply (Hsub g1) with (yl := yl); try assumption. lia.
      + intros l yl s0 Hl A. apply (tm_tms f g2 l yl c s0); [assumption|exact Hl|]. apply (Hsub g2) with (yl := yl); try assumption. lia.
      + intros l yl s0 Hl A. exact (Hsub GEmpty eq_refl I ltac:(cbn [tdepth]; lia) l yl c s0 Hl A).
    - apply tm_count_of. apply (tm_intersperse_until (run f) f lo hi g1 g2 GEmpty lx ys c st HI (Hloop lx ys HI (adv_refl lx))).
      + intros l yl s0 Hl A. apply (Hsub g1) with (yl := yl); try assumption. lia.
      + intros l yl s0 Hl A. apply (tm_tms f g2 l yl c s0); [assumption|exact Hl|]. apply (Hsub g2) with (yl := yl); try assumption. lia.
      + intros l yl s0 Hl A. exact (Hsub GEmpty eq_refl I ltac:(cbn [tdepth]; lia) l yl c s0 Hl A).
    - (* intersperse *) apply (tm_intersperse (run f) f lo hi g1 g2 lx ys c st HI (Hloop lx ys HI (adv_refl lx))).
      + intros l yl s0 Hl A. apply (tm_tms f g1 l yl c s0); [assumption|exact Hl|]. apply (Hsub g1) with (yl := yl); try assumption. lia.
      + intros l yl s0 Hl A. apply (Hsub g2) with (yl := yl); try assumption. lia.
    - apply tm_count_of. apply (tm_intersperse (run f) f lo hi g1 g2 lx ys c st HI (Hloop lx ys HI (adv_refl lx))).
      + intros l yl s0 Hl A. apply (tm_tms f g1 l yl c s0); [assumption|exact Hl|]. apply (Hsub g1) with (yl := yl); try assumption. lia.
      + intros l yl s0 Hl A. apply (Hsub g2) with (yl := yl); try assumption. lia.
    - (* intersperse_until *) apply (tm_intersperse_until (run f) f lo hi g1 g2 g3 lx ys c st HI (Hloop lx ys HI (adv_refl lx))).
      + intros l yl s0 Hl A. apply (Hsub g1) with (yl := yl); try assumption. lia.
      + intros l yl s0 Hl A. apply (tm_tms f g2 l yl c s0); [assumption|exact Hl|]. apply (Hsub g2) with (yl := yl); try assumption. lia.
      + intros l yl s0 Hl A. apply (Hsub g3) with (yl := yl); try assumption. lia.
    - apply tm_count_of. apply (tm_intersperse_until (run f) f lo hi g1 g2 g3 lx ys c st HI (Hloop lx ys HI (adv_refl lx))).
      + intros l yl s0 Hl A. apply (Hsub g1) with (yl := yl); try assumption. lia.
      + intros l yl s0 Hl A. apply (tm_tms f g2 l yl c s0); [assumption|exact Hl|]. apply (Hsub g2) with (yl := yl); try assumption. lia.
      + intros l yl s0 Hl A. apply (Hsub g3) with (yl := yl); try assumption. lia.
    - (* intersperse_default *) apply (tm_intersperse (run f) f lo hi g (GOne k) lx ys c st HI (Hloop lx ys HI (adv_refl lx))).
      + intros l yl s0 Hl A. apply (tm_tms f g l yl c s0); [assumption|exact Hl|]. apply (Hsub g) with (yl := yl); try assumption. lia.
      + intros l yl s0 Hl A. exact (Hsub (GOne k) eq_refl I ltac:(cbn [tdepth]; lia) l yl c s0 Hl A).
    - (* bracket *) apply Hbw; try assumption. lia.
    - apply Hbw; try assumption. lia.
    - apply Hbw; try assumption. lia.
    - apply Hbw; try assumption. lia.
    - (* up_to *) apply tm_on_ok; [apply (Hsub g) with (yl := ys); try assumption; [lia|apply adv_refl]|]. intros v l s0 yl Hl A.
      apply (tm_peek' l yl); [exact Hl|]. intros o l2 y2 Hl2 A2.
      destruct o as [t0|]; [|exact (tm_ok _ _ _ _ _ Hl2 (adv_refl _))]. destruct (in_kinds ab t0); [exact (tm_ok _ _ _ _ _ Hl2 (adv_refl _))|].
      apply (tm_advance_to l2 y2); [exact Hl2|]. intros b l3 y3 _ _ _. exact I.
    - (* list *) apply (Hlw 0 None (GSomeOf g) VNone sep ab); [exact Hg|exact Hr|cbn [tdepth]; lia].
    - apply (Hlw lo hi (GSomeOf g) VNone sep ab); [assumption|exact Hr|cbn [tdepth]; lia].
    - apply (Hlw 0 None g VDflt sep ab); [exact Hg|exact Hr|lia].
    - apply (Hlw lo hi g VDflt sep ab); [assumption|exact Hr|lia].
    - (* context push *) pose proof (Hsub g Hg Hr ltac:(lia) lx ys (ctx_pushed c tag) st HI (adv_refl lx)) as H1.
      destruct (run f g lx (ctx_pushed c tag) st) as [[v l|e| |] s1]; cbn [tm] in H1 |- *; exact H1.
    - (* user failure *) apply (tm_peek' lx ys); [exact HI|]. intros o l yl Hl _. exact I.
    - (* probe *) destruct (send_error c (EProbe n) (log st)) as [lg [e'|]]; exact (tm_ok _ _ _ _ _ HI (adv_refl _)).
    - (* some_of *) apply tm_map_val. apply (Hsub g) with (yl := ys); try assumption; [lia|apply adv_refl].
    - (* recover_with *) apply (Hrw dflt r (fun l c' s => run f g l c' s)). apply (Hsub g) with (yl := ys); try assumption; [lia|apply adv_refl].
  Qed.
End Term.

(** [progress] is satisfiable: the token leaves consume a token whenever they succeed *)
Lemma progress_one m (Htab : 1 <= tabw m) t (Ht : wf_text t) k : progress m t (GOne k).
Proof.
  intros f l ys c st v l' st' HI E. destruct f as [|f]; [discriminate E|]. cbn [run] in E.
  destruct (lexer_ops_total m Htab t Ht l ys None HI) as ((o & l1 & y1 & E1 & _) & _). rewrite E1 in E. cbn [lift] in E.
  destruct (next_adv m Htab t Ht l ys o l1 HI E1) as [_ S].
  destruct o as [t0|]; [|discriminate E]. destruct (tok_eqb t0 (tk0 k)); [|discriminate E]. injection E as _ <- _.
  apply S. discriminate.
Qed.

Lemma progress_pred m (Htab : 1 <= tabw m) t (Ht : wf_text t) p : progress m t (GPred p).
Proof.
  intros f l ys c st v l' st' HI E. destruct f as [|f]; [discriminate E|]. cbn [run] in E.
  destruct (lexer_ops_total m Htab t Ht l ys None HI) as ((o & l1 & y1 & E1 & _) & _). rewrite E1 in E. cbn [lift] in E.
  destruct (next_adv m Htab t Ht l ys o l1 HI E1) as [_ S].
  destruct o as [t0|]; [|discriminate E]. destruct (peval p t0); [|discriminate E]. injection E as _ <- _.
  apply S. discriminate.
Qed.
