(** C14 for the whole C06/C07 family without sub-lexing: cursor tracking through seq_count,
    end_of_text and every repetition / interspersal combinator (nested, nullable or not), hence
    spanned / text around ANY such parser cover exactly the tokens consumed, and are empty when
    nothing was consumed. *)
From Tephra Require Import MetricsSpec MetricsFacts CLexer LexerFacts Run Peg RunCore RunErrors RunCapture RunMove.

Fixpoint core1 (g : G) : bool :=
  match g with
  | GSub _ => false
  | GEmpty | GOne _ | GPred _ | GSeq _ | GSeqCount _ | GEot | GUserFail => true
  | GAny ks | GAnyIndex ks => match ks with [] => false | _ => true end
  | GBoth a b | GLeft a b | GRight a b | GEither a b
  | GImplies a b | GAntecedent a b | GConsequent a b | GCondImplies a _ b
  | GRepeatUntil _ _ a b | GRepeatCountUntil _ _ a b | GIntersperse _ _ a b | GIntersperseCount _ _ a b => core1 a && core1 b
  | GCenter a b d | GIntersperseUntil _ _ a b d | GIntersperseCountUntil _ _ a b d => core1 a && core1 b && core1 d
  | GMap _ a | GDiscard a | GSomeOf a | GRaw a | GUnrec a | GCtxPush _ a
  | GMaybe a | GCond _ a | GRequireIf _ a
  | GRepeat _ _ a | GRepeatCount _ _ a | GIntersperseDef _ _ a _ => core1 a
  | _ => false
  end.

Section Move2.
  Variable m : metrics.
  Hypothesis Htab : 1 <= tabw m.
  Variable t : text.
  Hypothesis Ht : wf_text t.
  Local Notation Inv := (Inv m t).
  Local Notation tracked := (tracked m t).
  Local Notation moved := (moved).

  Definition tfun (P : clexer -> store -> R) : Prop := forall l yl s, Inv l yl -> tracked l yl (P l s).
  Definition tstop (stop : option (clexer -> store -> R)) : Prop := match stop with Some sp => tfun sp | None => True end.
  Definition tcont (k : list val -> clexer -> store -> R) : Prop := forall vs l yl s, Inv l yl -> tracked l yl (k vs l s).

  Lemma tracked_mand : forall n lo stop step vals cur ycur st k, tstop stop -> tfun step -> tcont k -> Inv cur ycur ->
    tracked cur ycur (mand_loop n lo stop step vals cur st k).
  Proof using Htab Ht.
    induction n as [|n IH]; intros lo stop step vals cur ycur st k Hsp Hst Hk HI; cbn [mand_loop]; [exact I|].
    destruct (length vals <? lo); [|apply Hk; exact HI].
    assert (Hgo : forall s0,
              tracked cur ycur match step cur s0 with
                               | (ROk v lx', st') => mand_loop n lo stop step (vals ++ [v]) lx' st' k
                               | r => r
                               end).
    { intros s0. pose proof (Hst cur ycur s0 HI) as H. destruct (step cur s0) as [[v l|e| |] s1]; try exact I.
      destruct H as (yl & c1 & HI1 & Hf1 & Hk1 & Hm1).
      apply (tracked_from m Htab t cur ycur l yl c1 _ HI1 Hf1 Hk1 Hm1). apply IH; assumption. }
    destruct stop as [sp|]; [|apply Hgo].
    destruct (sp cur st) as [[v l|e| |] s1]; try exact I; [apply (tracked_self m Htab t); exact HI|apply Hgo].
  Qed.

  Lemma tracked_opt : forall n hi stop step vals cur ycur st, tstop stop -> tfun step -> Inv cur ycur ->
    tracked cur ycur (opt_loop n hi stop step vals cur st).
  Proof using Htab Ht.
    induction n as [|n IH]; intros hi stop step vals cur ycur st Hsp Hst HI; cbn [opt_loop]; [exact I|].
    destruct (lt_opt (length vals) hi); [|apply (tracked_self m Htab t); exact HI].
    assert (Hgo : forall s0,
              tracked cur ycur match step cur s0 with
                               | (ROk v lx', st') =>
                                 let vals' := vals ++ [v] in
                                 if ge_opt (length vals') hi then (ROk (VList vals') lx', st')
                                 else opt_loop n hi stop step vals' lx' st'
                               | (RErr _, st') => (ROk (VList vals) cur, st')
                               | r => r
                               end).
    { intros s0. pose proof (Hst cur ycur s0 HI) as H. destruct (step cur s0) as [[v l|e| |] s1]; try exact I.
      - destruct H as (yl & c1 & HI1 & Hf1 & Hk1 & Hm1). cbn zeta.
        destruct (ge_opt _ hi).
        + exists yl, c1. repeat (split; [assumption|]). assumption.
        + apply (tracked_from m Htab t cur ycur l yl c1 _ HI1 Hf1 Hk1 Hm1). apply IH; assumption.
      - apply (tracked_self m Htab t). exact HI. }
    destruct stop as [sp|]; [|apply Hgo].
    destruct (sp cur st) as [[v l|e| |] s1]; try exact I; [apply (tracked_self m Htab t); exact HI|apply Hgo].
  Qed.

  Section WithRunf.
    Variable runf : G -> clexer -> ctx -> store -> R.
    Variable ok : G -> Prop.
    Hypothesis Hrun : forall g l yl c s, ok g -> Inv l yl -> tracked l yl (runf g l c s).

    Lemma right_of_tfun s a c : ok s -> ok a -> tfun (right_of runf s a c).
    Proof using Htab Ht Hrun.
      intros Hs Ha l yl st HI. unfold right_of. apply (tracked_on_ok m Htab t); [apply Hrun; assumption|].
      intros v l1 s1 yl1 HI1. apply Hrun; assumption.
    Qed.

    Lemma tracked_intersperse n lo hi a s lx ys c st : ok a -> ok s -> Inv lx ys ->
      tracked lx ys (run_intersperse runf n lo hi a s lx c st).
    Proof using Htab Ht Hrun.
      intros Ha Hs HI. unfold run_intersperse, hi_check.
      assert (Hb : tracked lx ys match runf a lx c st with
                                 | (ROk v lx1, st1) =>
                                   mand_loop n lo None (right_of runf s a c) [v] lx1 st1
                                     (fun vals cur st2 => opt_loop n hi None (right_of runf s a c) vals cur st2)
                                 | (RErr e, st1) => if lo =? 0 then (ROk (VList []) lx, st1) else (RErr e, st1)
                                 | r => r
                                 end).
      { pose proof (Hrun a lx ys c st Ha HI) as H. destruct (runf a lx c st) as [[v l|e| |] s1]; try exact I.
        - destruct H as (yl & c1 & HI1 & Hf1 & Hk1 & Hm1).
          apply (tracked_from m Htab t lx ys l yl c1 _ HI1 Hf1 Hk1 Hm1).
          apply tracked_mand; try exact I; try (apply right_of_tfun; assumption); [|exact HI1].
          intros vs l2 yl2 s2 HI2. apply tracked_opt; try exact I; [apply right_of_tfun; assumption|exact HI2].
        - destruct (lo =? 0); [apply (tracked_self m Htab t); exact HI|exact I]. }
      destruct hi as [h|]; [|exact Hb]. destruct (h <? lo); [exact I|].
      destruct (h =? 0); [apply (tracked_self m Htab t); exact HI|exact Hb].
    Qed.

    Lemma tracked_intersperse_until n lo hi sg a s lx ys c st : ok sg -> ok a -> ok s -> Inv lx ys ->
      tracked lx ys (run_intersperse_until runf n lo hi sg a s lx c st).
    Proof using Htab Ht Hrun.
      intros Hg Ha Hs HI. unfold run_intersperse_until, hi_check.
      assert (Hstop : tstop (Some (fun l st0 => runf sg l c st0))) by (intros l yl s0 H1; apply Hrun; assumption).
      assert (Hb : tracked lx ys match runf sg lx c st with
                                 | (ROk _ _, st0) => (ROk (VList []) lx, st0)
                                 | (RErr _, st0) =>
                                   match runf a lx c st0 with
                                   | (ROk v lx1, st1) =>
                                     mand_loop n lo (Some (fun l st => runf sg l c st)) (right_of runf s a c) [v] lx1 st1
                                       (fun vals cur st2 => opt_loop n hi (Some (fun l st => runf sg l c st)) (right_of runf s a c) vals cur st2)
                                   | (RErr e, st1) => if lo =? 0 then (ROk (VList []) lx, st1) else (RErr e, st1)
                                   | r => r
                                   end
                                 | r => r
                                 end).
      { destruct (runf sg lx c st) as [[v0 l0|e0| |] s0]; try exact I; [apply (tracked_self m Htab t); exact HI|].
        pose proof (Hrun a lx ys c s0 Ha HI) as H. destruct (runf a lx c s0) as [[v l|e| |] s1]; try exact I.
        - destruct H as (yl & c1 & HI1 & Hf1 & Hk1 & Hm1).
          apply (tracked_from m Htab t lx ys l yl c1 _ HI1 Hf1 Hk1 Hm1).
          apply tracked_mand; try exact Hstop; try (apply right_of_tfun; assumption); [|exact HI1].
          intros vs l2 yl2 s2 HI2. apply tracked_opt; try exact Hstop; [apply right_of_tfun; assumption|exact HI2].
        - destruct (lo =? 0); [apply (tracked_self m Htab t); exact HI|exact I]. }
      destruct hi as [h|]; [|exact Hb]. destruct (h <? lo); [exact I|].
      destruct (h =? 0); [apply (tracked_self m Htab t); exact HI|exact Hb].
    Qed.
  End WithRunf.

  Theorem core1_tracked : forall fuel g, core1 g = true -> forall lx ys c st, Inv lx ys ->
    tracked lx ys (run fuel g lx c st).
  Proof using Htab Ht.
    induction fuel as [|f IH]; intros g Hg lx ys c st HI; [exact I|].
    (* a consumed token, then the rest *)
    assert (Hone : forall x s lx' ys' v st', kept (c_filter lx) ys = x :: s -> Inv lx' ys' -> c_filter lx' = c_filter lx ->
              kept (c_filter lx) ys' = s -> moved lx lx' [x] -> tracked lx ys (ROk v lx', st')).
    { intros x s lx' ys' v st' Hk HI' Hf Hk' Hm. exists ys', [x]. split; [exact HI'|]. split; [exact Hf|].
      split; [rewrite Hk, Hk'; reflexivity|exact Hm]. }
    assert (Hmaybe : forall a lx0 ys0 c0 st0, core1 a = true -> Inv lx0 ys0 -> tracked lx0 ys0 (run f (GMaybe a) lx0 c0 st0)).
    { intros a lx0 ys0 c0 st0 Ha HI0. apply IH; assumption. }
    assert (Hante : forall a (kr : val -> clexer -> store -> R), core1 a = true ->
              (forall v lx1 st1 ys1, Inv lx1 ys1 -> tracked lx1 ys1 (kr v lx1 st1)) ->
              tracked lx ys (on_ok (run f (GMaybe a) lx c st) kr)).
    { intros a kr Ha Hkr. apply (tracked_on_ok m Htab t); [apply Hmaybe; assumption|exact Hkr]. }
    destruct g; cbn [core1] in Hg; try discriminate Hg; cbn [run];
      repeat match goal with H : _ && _ = true |- _ => apply andb_prop in H; destruct H end.
    - (* empty *) apply (tracked_self m Htab t). exact HI.
    - (* one *) apply (tracked_next m Htab t Ht); [exact HI|reflexivity| |intros; exact I].
      intros x s lx' ys' Hk HI' Hf Hk' Hm. destruct (tok_eqb (e_tok x) (tk0 k)); [|exact I]. exact (Hone x s lx' ys' _ _ Hk HI' Hf Hk' Hm).
    - (* any *) destruct ks as [|k0 ks]; [discriminate Hg|].
      destruct (kept (c_filter lx) ys) as [|x s] eqn:Hk.
      + destruct (peek_nil m Htab t Ht lx ys HI Hk) as (lx1 & ys1 & E & _). rewrite E. exact I.
      + destruct (peek_cons m Htab t Ht lx ys x s HI Hk) as (lx1 & ys1 & E & HI1 & Hf1 & _ & Hk1). rewrite E. cbn [lift].
        destruct (position _ (k0 :: ks)); [|exact I].
        pose proof (peek_moved m Htab t Ht lx ys _ lx1 HI E) as Hm1.
        pose proof Hk1 as Hk1'. rewrite <- Hf1 in Hk1'.
        destruct (next_cons m Htab t Ht lx1 ys1 x s HI1 Hk1') as (lx2 & ys2 & E2 & HI2 & Hf2 & _ & Hk2 & _). rewrite E2. cbn [lift].
        pose proof (next_moved m Htab t Ht lx1 ys1 x s HI1 Hk1' lx2 E2) as Hm2.
        exists ys2, [x]. split; [exact HI2|]. split; [congruence|]. split; [rewrite Hk; rewrite <- Hf1; rewrite Hk2; reflexivity|].
        exact (moved_trans m Htab _ _ _ [] [x] Hm1 Hm2).
    - (* any_index *) destruct ks as [|k0 ks]; [discriminate Hg|].
      destruct (kept (c_filter lx) ys) as [|x s] eqn:Hk.
      + destruct (peek_nil m Htab t Ht lx ys HI Hk) as (lx1 & ys1 & E & _). rewrite E. exact I.
      + destruct (peek_cons m Htab t Ht lx ys x s HI Hk) as (lx1 & ys1 & E & HI1 & Hf1 & _ & Hk1). rewrite E. cbn [lift].
        destruct (position _ (k0 :: ks)); [|exact I].
        pose proof (peek_moved m Htab t Ht lx ys _ lx1 HI E) as Hm1.
        pose proof Hk1 as Hk1'. rewrite <- Hf1 in Hk1'.
        destruct (next_cons m Htab t Ht lx1 ys1 x s HI1 Hk1') as (lx2 & ys2 & E2 & HI2 & Hf2 & _ & Hk2 & _). rewrite E2. cbn [lift].
        pose proof (next_moved m Htab t Ht lx1 ys1 x s HI1 Hk1' lx2 E2) as Hm2.
        exists ys2, [x]. split; [exact HI2|]. split; [congruence|]. split; [rewrite Hk; rewrite <- Hf1; rewrite Hk2; reflexivity|].
        exact (moved_trans m Htab _ _ _ [] [x] Hm1 Hm2).
    - (* seq *)
      assert (Hseq : forall ks0 acc l yl, Inv l yl ->
                tracked l yl
                  ((fix go (ks : list kind) (acc : list val) (l : clexer) : R :=
                      match ks with
                      | [] => (ROk (VList acc) l, st)
                      | k :: r =>
                        lift (c_next l) st (fun '(o, l') =>
                        match o with
                        | Some t0 => if tok_eqb t0 (tk0 k) then go r (acc ++ [VTok t0]) l'
                                     else (RErr (EUnexpected (c_parse_span lx) (c_token_span l') (ExTok (tk0 k)) (Some t0)), st)
                        | None => (RErr (EUnexpected (c_parse_span lx) (c_token_span l') (ExTok (tk0 k)) None), st)
                        end)
                      end) ks0 acc l)).
      { induction ks0 as [|k r IHk]; intros acc l yl HIl.
        - apply (tracked_self m Htab t). exact HIl.
        - destruct (kept (c_filter l) yl) as [|x s] eqn:Hk.
          + destruct (next_nil m Htab t Ht l yl HIl Hk) as (l' & E & _). rewrite E. exact I.
          + destruct (next_cons m Htab t Ht l yl x s HIl Hk) as (l' & yl' & E & HI' & Hf & _ & Hk' & _). rewrite E. cbn [lift].
            destruct (tok_eqb (e_tok x) (tk0 k)); [|exact I].
            apply (tracked_from m Htab t l yl l' yl' [x]); [exact HI'|exact Hf|rewrite Hk, Hk'; reflexivity|exact (next_moved m Htab t Ht l yl x s HIl Hk l' E)|].
            apply IHk. exact HI'. }
      apply Hseq. exact HI.
    - (* seq_count *)
      assert (Hsc : forall ks0 cnt l yl, Inv l yl ->
                tracked l yl
                  ((fix go (ks : list kind) (cnt : nat) (l : clexer) : R :=
                      match ks with
                      | [] => (ROk (VNat cnt) l, st)
                      | k :: r =>
                        if c_at_end l then (ROk (VNat cnt) l, st)
                        else
                          lift (c_peek l) st (fun '(o, l') =>
                          match o with
                          | Some t0 => if tok_eqb t0 (tk0 k)
                                       then lift (c_next l') st (fun '(_, l'') => go r (S cnt) l'')
                                       else (ROk (VNat cnt) l', st)
                          | None =>
                            lift (only_filtered_remain l') st (fun b =>
                            if b then (ROk (VNat cnt) l', st) else (RErr (EUnrecognized (c_parse_span lx)), st))
                          end)
                      end) ks0 cnt l)).
      { induction ks0 as [|k r IHk]; intros cnt l yl HIl; [apply (tracked_self m Htab t); exact HIl|].
        destruct (c_at_end l); [apply (tracked_self m Htab t); exact HIl|].
        destruct (kept (c_filter l) yl) as [|x s] eqn:Hk.
        - destruct (peek_nil m Htab t Ht l yl HIl Hk) as (l1 & yl1 & E & HI1 & Hf1 & _ & Hk1). rewrite E. cbn [lift].
          destruct (only_filtered_remain l1) as [b| |]; cbn [lift]; try exact I. destruct b; [|exact I].
          exists yl1, []. split; [exact HI1|]. split; [exact Hf1|]. split; [rewrite Hk, Hk1; reflexivity|].
          exact (peek_moved m Htab t Ht l yl _ l1 HIl E).
        - destruct (peek_cons m Htab t Ht l yl x s HIl Hk) as (l1 & yl1 & E & HI1 & Hf1 & _ & Hk1). rewrite E. cbn [lift].
          pose proof (peek_moved m Htab t Ht l yl _ l1 HIl E) as Hm1.
          destruct (tok_eqb (e_tok x) (tk0 k)).
          + pose proof Hk1 as Hk1'. rewrite <- Hf1 in Hk1'.
            destruct (next_cons m Htab t Ht l1 yl1 x s HI1 Hk1') as (l2 & yl2 & E2 & HI2 & Hf2 & _ & Hk2 & _). rewrite E2. cbn [lift].
            pose proof (next_moved m Htab t Ht l1 yl1 x s HI1 Hk1' l2 E2) as Hm2.
            apply (tracked_from m Htab t l yl l2 yl2 [x]); [exact HI2|congruence|rewrite Hk; rewrite <- Hf1; rewrite Hk2; reflexivity|exact (moved_trans m Htab _ _ _ [] [x] Hm1 Hm2)|].
            apply IHk. exact HI2.
          + exists yl1, []. split; [exact HI1|]. split; [exact Hf1|]. split; [rewrite Hk, Hk1; reflexivity|exact Hm1]. }
      apply Hsc. exact HI.
    - (* pred *) apply (tracked_next m Htab t Ht); [exact HI|reflexivity| |intros; exact I].
      intros x s lx' ys' Hk HI' Hf Hk' Hm. destruct (peval p (e_tok x)); [|exact I]. exact (Hone x s lx' ys' _ _ Hk HI' Hf Hk' Hm).
    - (* end_of_text *)
      destruct (if c_at_end lx then Ok true else only_filtered_remain lx) as [b| |]; cbn [lift]; try exact I.
      destruct b; [apply (tracked_self m Htab t); exact HI|].
      destruct (c_peek lx) as [[o l]| |]; cbn [lift]; try exact I. destruct o; exact I.
    - (* left *) apply (tracked_on_ok m Htab t); [apply IH; assumption|]. intros v l s0 yl HIl. apply (tracked_map m t). apply IH; assumption.
    - (* right *) apply (tracked_on_ok m Htab t); [apply IH; assumption|]. intros v l s0 yl HIl. apply IH; assumption.
    - (* both *) apply (tracked_on_ok m Htab t); [apply IH; assumption|]. intros v l s0 yl HIl. apply (tracked_map m t). apply IH; assumption.
    - (* center *) apply (tracked_on_ok m Htab t); [apply IH; assumption|]. intros v l s0 yl HIl.
      apply (tracked_on_ok m Htab t); [apply IH; assumption|]. intros v2 l2 s2 yl2 HIl2. apply (tracked_map m t). apply IH; assumption.
    - (* map *) apply (tracked_map m t). apply IH; assumption.
    - (* discard *) apply (tracked_map m t). apply IH; assumption.
    - (* either *) pose proof (IH g1 H lx ys c st HI) as H1.
      destruct (run f g1 lx c st) as [[v l|e| |] s1]; try exact H1; try exact I. apply IH; assumption.
    - (* maybe *) pose proof (IH g Hg lx ys (ctx_unrec c) st HI) as H1.
      destruct (run f g lx (ctx_unrec c) st) as [[v l|e| |] s1]; try exact I; [exact H1|]. apply (tracked_self m Htab t). exact HI.
    - (* require_if *) destruct b; [apply (tracked_map m t); apply IH; assumption|]. apply Hmaybe; assumption.
    - (* cond *) destruct b; [apply (tracked_map m t); apply IH; assumption|apply (tracked_self m Htab t); exact HI].
    - (* implies *) apply Hante; [exact H|]. intros v l s0 yl HIl.
      destruct v; try (apply (tracked_self m Htab t); exact HIl). apply (tracked_map m t). apply IH; assumption.
    - (* antecedent *) apply Hante; [exact H|]. intros v l s0 yl HIl.
      destruct v; try (apply (tracked_self m Htab t); exact HIl). apply (tracked_map m t). apply IH; assumption.
    - (* consequent *) apply Hante; [exact H|]. intros v l s0 yl HIl.
      destruct v; try (apply (tracked_self m Htab t); exact HIl). apply (tracked_map m t). apply IH; assumption.
    - (* cond_implies *) apply Hante; [exact H|]. intros v l s0 yl HIl.
      destruct v; try (apply (tracked_self m Htab t); exact HIl). destruct (vpeval p v); [|apply (tracked_self m Htab t); exact HIl]. apply (tracked_map m t). apply IH; assumption.
    - (* raw *) apply IH; assumption.
    - (* unrecoverable *) apply IH; assumption.
    - (* repeat *) apply (tracked_intersperse (run f) (fun g => core1 g = true)); try assumption; try reflexivity.
      intros g0 l yl c0 s0 Hg0 HIl. apply IH; assumption.
    - (* repeat_count *) apply (tracked_map m t). apply (tracked_intersperse (run f) (fun g => core1 g = true)); try assumption; try reflexivity.
      intros g0 l yl c0 s0 Hg0 HIl. apply IH; assumption.
    - (* repeat_until *) apply (tracked_intersperse_until (run f) (fun g => core1 g = true)); try assumption; try reflexivity.
      intros g0 l yl c0 s0 Hg0 HIl. apply IH; assumption.
    - (* repeat_count_until *) apply (tracked_map m t). apply (tracked_intersperse_until (run f) (fun g => core1 g = true)); try assumption; try reflexivity.
      intros g0 l yl c0 s0 Hg0 HIl. apply IH; assumption.
    - (* intersperse *) apply (tracked_intersperse (run f) (fun g => core1 g = true)); try assumption; try reflexivity.
      intros g0 l yl c0 s0 Hg0 HIl. apply IH; assumption.
    - (* intersperse_count *) apply (tracked_map m t). apply (tracked_intersperse (run f) (fun g => core1 g = true)); try assumption; try reflexivity.
      intros g0 l yl c0 s0 Hg0 HIl. apply IH; assumption.
    - (* intersperse_until *) apply (tracked_intersperse_until (run f) (fun g => core1 g = true)); try assumption; try reflexivity.
      intros g0 l yl c0 s0 Hg0 HIl. apply IH; assumption.
    - (* intersperse_count_until *) apply (tracked_map m t). apply (tracked_intersperse_until (run f) (fun g => core1 g = true)); try assumption; try reflexivity.
      intros g0 l yl c0 s0 Hg0 HIl. apply IH; assumption.
    - (* intersperse_default *) apply (tracked_intersperse (run f) (fun g => core1 g = true)); try assumption; try reflexivity.
      intros g0 l yl c0 s0 Hg0 HIl. apply IH; assumption.
    - (* context push *) pose proof (IH g Hg lx ys (ctx_pushed c tag) st HI) as H1.
      destruct (run f g lx (ctx_pushed c tag) st) as [[v l|e| |] s1]; try exact I. exact H1.
    - (* user failure *) destruct (c_peek lx) as [[o l]| |]; exact I.
    - (* some_of *) apply (tracked_map m t). apply IH; assumption.
  Qed.

  (** C14 for the family: spanned / text around any sub-free parser of the C06/C07 family *)
  Theorem spanned_exact1 f a lx ys c st x s sp v lx' st' : Inv lx ys -> kept (c_filter lx) ys = x :: s ->
    core1 a = true ->
    run (S f) (GSpanned a) lx c st = (ROk (VSpanned sp v) lx', st') ->
    exists ys' consumed, Inv lx' ys' /\ x :: s = consumed ++ kept (c_filter lx) ys'
      /\ match consumed with
         | [] => byte (sstart sp) = byte (send sp)
         | y :: _ => sp = mkspan (e_start y) (e_end (last consumed y)) /\ y = x
         end.
  Proof using Htab Ht.
    intros HI Hk Ha. apply (spanned_exact_of m Htab t Ht f a lx ys c st x s sp v lx' st' HI Hk). intros lx1 ys1 HI1. apply core1_tracked; assumption.
  Qed.

  Theorem text_exact1 f a lx ys c st x s b e lx' st' : Inv lx ys -> kept (c_filter lx) ys = x :: s ->
    core1 a = true ->
    run (S f) (GText a) lx c st = (ROk (VText b e) lx', st') ->
    exists ys' consumed, Inv lx' ys' /\ x :: s = consumed ++ kept (c_filter lx) ys'
      /\ match consumed with
         | [] => b = e
         | y :: _ => b = byte (e_start y) /\ e = byte (e_end (last consumed y)) /\ y = x
         end.
  Proof using Htab Ht.
    intros HI Hk Ha. apply (text_exact_of m Htab t Ht f a lx ys c st x s b e lx' st' HI Hk). intros lx1 ys1 HI1. apply core1_tracked; assumption.
  Qed.
End Move2.
