(** Model of the COLOURED rendering of tephra-error, transcribed from the [color_enabled] branches of
    display.rs (CodeDisplay / SpanDisplay / MultiSplitLines write_with_color_enablement, write_gutter),
    highlight.rs (write_riser_for_line, write_message_for_line) and message.rs (MessageType), next to
    the plain rendering of Render.v, which transcribes the other branches.

    A coloured cell is a plain cell or a cell wrapped in a style; the `colored` crate writes a styled
    value as [ESC style] value [ESC reset], padding applied to the value inside the escapes (the driver
    does the same). [den] gives a cell its characters, so that the two renderings - which cut their
    output into different cells - can be compared: the plain rendering equals the coloured rendering
    with the styles removed ([colour_strip_plain]). *)
From Coq Require Import Ascii.
From Tephra Require Export Render.

Inductive colr := CWhite | CRed | CYellow | CBlue | CGreen.     (* colored::Color::Bright... *)
Record style := mksty { st_col : colr; st_bold : bool }.
Inductive ccell := CP (c : ocell) | CS (s : style) (c : ocell).

(** message.rs MessageType::color *)
Definition mcolor (t : mtype) : colr :=
  match t with MInfo => CWhite | MError => CRed | MWarning => CYellow | MNote => CBlue | MHelp => CGreen end.
Definition blue_bold : style := mksty CBlue true.
Definition white_bold : style := mksty CWhite true.
Definition mty (t : mtype) : style := mksty (mcolor t) false.

(** message.rs MessageType::write_with_color_enablement, colour branch (= its Display) *)
Definition mtype_cells_c (t : mtype) : list ccell :=
  match t with
  | MInfo => [CP (OS "info")]
  | MError => [CS (mksty (mcolor MError) true) (OS "error")]
  | MWarning => [CS (mksty (mcolor MWarning) true) (OS "warning")]
  | MNote => [CS (mksty (mcolor MNote) true) (OS "note")]
  | MHelp => [CS (mksty (mcolor MHelp) true) (OS "help")]
  end.

(** display.rs write_gutter, colour branch: [{:>width$} {} ] with the value and the bar styled *)
Definition gutter_num_c (w n : nat) : list ccell :=
  [CS blue_bold (ONatR w n); CP (OS " "); CS blue_bold (OS "|"); CP (OS " ")].
Definition gutter_empty_c (w : nat) : list ccell :=
  [CS blue_bold (ORep " " w); CP (OS " "); CS blue_bold (OS "|"); CP (OS " ")].

(** highlight.rs write_riser_for_line: only the opening "/" is styled *)
Definition riser_c (h : highlight) (l : nat) (st : rstate) (active : bool) : list ccell * rstate :=
  let ls := line (sstart (h_span h)) in let le_ := line (send (h_span h)) in
  match st with
  | RUnused => ([], RUnused)
  | REnded => ([CP (OS " ")], REnded)
  | RWaiting =>
    if l <? ls then ([CP (OS " ")], RWaiting)
    else if negb active && (col (sstart (h_span h)) =? 0) then ([CS (mty (h_ty h)) (OS "/")], RStarted)
    else ([CP (OS " ")], if active then RStarted else RWaiting)
  | RStarted => ([CP (OS "|")], if active && (le_ <=? l) then REnded else RStarted)
  end.

Fixpoint risers_c (hls : list highlight) (sts : list rstate) (l : nat) (act : option nat) (idx : nat)
  : list ccell * list rstate :=
  match hls, sts with
  | h :: hr, s :: sr =>
    let (c, s') := riser_c h l s (match act with Some a => a =? idx | None => false end) in
    let (cr, sr') := risers_c hr sr l act (S idx) in
    (c ++ cr, s' :: sr')
  | _, _ => ([], sts)
  end.

(** [for _ in 0..n { write!(out, "{}", x.color(..)) }]: every copy carries its own escapes *)
Fixpoint crep (n : nat) (c : ccell) : list ccell :=
  match n with 0 => [] | S k => c :: crep k c end.

(** highlight.rs write_message_for_line, colour branches *)
Definition message_row_c (h : highlight) (l : nat) (extra : bool) : list ccell :=
  let a := sstart (h_span h) in let b := send (h_span h) in
  let sty := mty (h_ty h) in
  if (line a =? l) && (line b =? l) then
    (if extra then [CP (OS " ")] else [])
    ++ [CP (ORep " " (col a))]
    ++ (if byte a =? byte b then [CS sty (OS "\")]
        else crep (Nat.max (col b - col a) 1) (CS sty (OS (underline_of (h_ty h)))))
    ++ [CP (OS " "); CS sty (OHl (h_msg h)); CP ONl]
  else if line a =? l then
    (if extra then [CS sty (OS "_")] else [])
    ++ crep (col a) (CS sty (OS "_"))
    ++ [CS sty (OS "^"); CP ONl]
  else if line b =? l then
    (if extra then [CS sty (OS "_")] else [])
    ++ (if 0 <? col b then crep (col b - 1) (CS sty (OS "_")) else [])
    ++ [CS sty (OS "^"); CP (OS " "); CS sty (OHl (h_msg h)); CP ONl]
  else [].

Fixpoint message_rows_c (hls all : list highlight) (sts : list rstate) (l gw : nat) (extra : bool) (idx : nat)
  : list ccell * list rstate :=
  match hls with
  | [] => ([], sts)
  | h :: hr =>
    if has_message_for_line h l then
      let (rc, sts') := risers_c all sts l (Some idx) 0 in
      let (rest, sts'') := message_rows_c hr all sts' l gw extra (S idx) in
      (gutter_empty_c gw ++ rc ++ message_row_c h l extra ++ rest, sts'')
    else message_rows_c hr all sts l gw extra (S idx)
  end.

(** display.rs MultiSplitLines::write_with_color_enablement: the source text itself is never styled *)
Fixpoint line_rows_c (src : source) (pieces : list span) (hls : list highlight) (sts : list rstate) (gw : nat)
  : res (list ccell) :=
  match pieces with
  | [] => Ok []
  | sp :: rest =>
    let l := line (sstart sp) in
    let (rc, sts1) := risers_c hls sts l None 0 in
    let multi := existsb is_multiline hls in
    do w <- clipped src sp;
    let (mr, sts2) := message_rows_c hls hls sts1 l gw multi 0 in
    do more <- line_rows_c src rest hls sts2 gw;
    Ok (gutter_num_c gw l ++ rc ++ (if multi then [CP (OS " ")] else []) ++ [CP (OSrc (stext w)); CP ONl] ++ mr ++ more)
  end.

(** display.rs SpanDisplay::write_with_color_enablement, colour branch *)
Definition sd_render_c (src : source) (sd : span_display) : res (list ccell) :=
  do pieces <- sl_collect (S (S (length (stext src)))) (split_lines_of (sd_span sd) src);
  do body <- line_rows_c src pieces (sd_hls sd)
               (map (fun h => if is_multiline h then RWaiting else RUnused) (sd_hls sd)) (sd_gw sd);
  Ok ([CP (ORep " " (sd_gw sd)); CS blue_bold (OS "-->"); CP (OS " ")]
      ++ (if sd_named sd then [CP (OS "src.txt:")] else [])
      ++ [CP (OS "(")] ++ map CP (span_cells (sd_span sd)) ++ [CP (OS ")"); CP ONl]
      ++ gutter_empty_c (sd_gw sd) ++ [CP ONl] ++ body).

Fixpoint sds_render_c (src : source) (sds : list span_display) : res (list ccell) :=
  match sds with
  | [] => Ok []
  | sd :: r => do a <- sd_render_c src sd; do b <- sds_render_c src r; Ok (a ++ b)
  end.

(** display.rs CodeDisplay::write_with_color_enablement, colour branch *)
Definition cd_render_c (src : source) (cd : code_display) : res (list ccell) :=
  do body <- sds_render_c src (cd_sds cd);
  Ok (mtype_cells_c (cd_ty cd) ++ (if cd_code cd then [CP (OS "[E01]")] else [])
      ++ [CS white_bold (OS ":"); CP (OS " "); CS white_bold (OMsg (cd_msg cd)); CP ONl] ++ body).

(** ---- what a cell denotes: its characters ---- *)
Inductive atom := AC (a : ascii) | ADec (n : nat) | ASrc (c : chr).

Fixpoint chars (s : string) : list atom :=
  match s with EmptyString => [] | String a r => AC a :: chars r end.
Fixpoint rep (n : nat) (l : list atom) : list atom :=
  match n with 0 => [] | S k => l ++ rep k l end.

Definition den (c : ocell) : list atom :=
  match c with
  | OS s => chars s
  | ONat n => [ADec n]
  | ONatR w n => rep (w - digits n) (chars " ") ++ [ADec n]
  | ORep s n => rep n (chars s)
  | OSrc t => map ASrc t
  | OMsg n => chars "msg" ++ [ADec n]
  | OHl n => chars "m" ++ [ADec n]
  | ONl => [AC "010"%char]
  end.
Definition dens (l : list ocell) : list atom := flat_map den l.

Definition strip1 (c : ccell) : ocell := match c with CP x => x | CS _ x => x end.
Definition strip (l : list ccell) : list ocell := map strip1 l.
Definition rmap {A B} (f : A -> B) (r : res A) : res B :=
  match r with Ok a => Ok (f a) | Panic => Panic | Fuel => Fuel end.
