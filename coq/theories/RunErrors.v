(** C13, primitives: the unexpected-token error of one / pred / any / any_index names the first
    deliverable token with exactly the span the scanner matched for it, its parse-so-far span
    is the parse span at entry and ends no later than that token begins, and "nothing found"
    is reported exactly when nothing remains deliverable. *)
From Tephra Require Import MetricsSpec MetricsFacts CLexer LexerFacts Run Peg RunCore.

Section Errors.
  Variable m : metrics.
  Hypothesis Htab : 1 <= tabw m.
  Variable t : text.
  Hypothesis Ht : wf_text t.
  Local Notation Inv := (Inv m t).
  Local Notation stream := (stream m t).

  Lemma stream_start_ge st p ys : on_boundary t p -> stream st p ys ->
    forall x, In x ys -> byte p <= byte (e_start x).
  Proof using Htab Ht.
    intros Hb H. induction H as [st p Hn|st p tk e st' xs Hs Hr IH]; intros x Hx; [destruct Hx|].
    assert (Hfull : stream st p ((tk, p, e, st') :: xs)) by (econstructor; eassumption).
    destruct Hx as [<-|Hx]; [cbn; lia|].
    pose proof (entry_progress m Htab t Ht _ _ _ _ Hb Hfull) as Hp. cbn [e_start e_end fst snd] in Hp.
    pose proof (stream_boundary m Htab t Ht _ _ _ _ Hb Hfull) as Hb'. cbn [e_end fst snd] in Hb'.
    specialize (IH Hb' x Hx). lia.
  Qed.

  Lemma kept_In f ys x : In x (kept f ys) -> In x ys.
  Proof. unfold kept. intros H. apply filter_In in H. tauto. Qed.

  (** the parse-so-far span at entry ends where the cursor is, no later than any entry to come *)
  Lemma parse_span_before lx ys x : Inv lx ys -> In x (kept (c_filter lx) ys) ->
    byte (send (c_parse_span lx)) <= byte (e_start x).
  Proof using Htab Ht.
    intros HI Hx. pose proof HI as [_ Hb Hs _ [Ho1 Ho2] _].
    pose proof (stream_start_ge _ _ _ Hb Hs x (kept_In _ _ _ Hx)) as H.
    unfold c_parse_span, enclosing. destruct (Nat.ltb_spec (byte (c_cur lx)) (byte (c_ps lx))); cbn [send]; lia.
  Qed.

  Lemma token_span_of lx x : c_ts lx = e_start x -> c_cur lx = e_end x -> byte (e_start x) < byte (e_end x) ->
    c_token_span lx = mkspan (e_start x) (e_end x).
  Proof.
    intros A B C. unfold c_token_span, enclosing. rewrite A, B.
    destruct (Nat.ltb_spec (byte (e_end x)) (byte (e_start x))); [lia|reflexivity].
  Qed.

  (** [one] *)
  Theorem one_error f k lx ys c st x s : Inv lx ys -> kept (c_filter lx) ys = x :: s ->
    tok_eqb (e_tok x) (tk0 k) = false ->
    run (S f) (GOne k) lx c st =
      (RErr (EUnexpected (c_parse_span lx) (mkspan (e_start x) (e_end x)) (ExTok (tk0 k)) (Some (e_tok x))), st)
    /\ byte (send (c_parse_span lx)) <= byte (e_start x).
  Proof using Htab Ht.
    intros HI Hk Hne. split; [|apply (parse_span_before lx ys x HI); rewrite Hk; left; reflexivity].
    destruct (next_cons m Htab t Ht lx ys x s HI Hk) as (lx' & ys' & E & _ & _ & _ & _ & A & B & _ & _ & C).
    cbn [run]. rewrite E. cbn [lift]. rewrite Hne, (token_span_of lx' x A B C). reflexivity.
  Qed.

  Theorem one_end f k lx ys c st : Inv lx ys -> kept (c_filter lx) ys = [] ->
    exists ts, run (S f) (GOne k) lx c st = (RErr (EUnexpected (c_parse_span lx) ts (ExTok (tk0 k)) None), st).
  Proof using Htab Ht.
    intros HI Hk. destruct (next_nil m Htab t Ht lx ys HI Hk) as (lx' & E & _).
    cbn [run]. rewrite E. cbn [lift]. eexists. reflexivity.
  Qed.

  (** conversely: a found token is named only when one is deliverable, none only when none is *)
  Theorem one_found_iff f k lx ys c st es ts ex found : Inv lx ys ->
    run (S f) (GOne k) lx c st = (RErr (EUnexpected es ts ex found), st) ->
    match found with
    | Some tk => exists x s, kept (c_filter lx) ys = x :: s /\ tk = e_tok x /\ ts = mkspan (e_start x) (e_end x)
    | None => kept (c_filter lx) ys = []
    end.
  Proof using Htab Ht.
    intros HI Hrun. destruct (kept (c_filter lx) ys) as [|x s] eqn:Hk.
    - destruct (one_end f k lx ys c st HI Hk) as (ts' & E). rewrite E in Hrun. injection Hrun as _ _ _ <-. reflexivity.
    - destruct (tok_eqb (e_tok x) (tk0 k)) eqn:Heq.
      + (* accepted: no error *)
        destruct (next_cons m Htab t Ht lx ys x s HI Hk) as (lx' & ys' & E & _).
        cbn [run] in Hrun. rewrite E in Hrun. cbn [lift] in Hrun. rewrite Heq in Hrun. discriminate.
      + destruct (one_error f k lx ys c st x s HI Hk Heq) as [E _]. rewrite E in Hrun.
        injection Hrun as _ <- _ <-. exists x, s. repeat split.
  Qed.

  (** [pred] *)
  Theorem pred_error f p lx ys c st x s : Inv lx ys -> kept (c_filter lx) ys = x :: s ->
    peval p (e_tok x) = false ->
    run (S f) (GPred p) lx c st =
      (RErr (EUnexpected (c_parse_span lx) (mkspan (e_start x) (e_end x)) ExOther (Some (e_tok x))), st)
    /\ byte (send (c_parse_span lx)) <= byte (e_start x).
  Proof using Htab Ht.
    intros HI Hk Hne. split; [|apply (parse_span_before lx ys x HI); rewrite Hk; left; reflexivity].
    destruct (next_cons m Htab t Ht lx ys x s HI Hk) as (lx' & ys' & E & _ & _ & _ & _ & A & B & _ & _ & C).
    cbn [run]. rewrite E. cbn [lift]. rewrite Hne, (token_span_of lx' x A B C). reflexivity.
  Qed.

  (** * The look-ahead primitives: the span is that of the looked-at token, not of the last
      consumed one *)

  Lemma peek_cons_buf lx ys x s : Inv lx ys -> kept (c_filter lx) ys = x :: s ->
    exists lx' ys', c_peek lx = Ok (Some (e_tok x), lx') /\ Inv lx' ys' /\ c_buf lx' = Some (buf_of x)
      /\ c_filter lx' = c_filter lx /\ kept (c_filter lx) ys' = x :: s.
  Proof using Htab Ht.
    intros HI Hk. unfold c_peek. destruct (c_at_end lx) eqn:Eend.
    - rewrite (at_end_stream m Htab t Ht lx ys HI Eend) in Hk. discriminate.
    - destruct (c_buffer_next_spec m Htab t Ht lx ys HI) as (lx' & ys' & E & HI' & Hk' & Hf & _ & Hbf).
      destruct (first_kept (c_filter lx) ys) as [sk o] eqn:EF.
      rewrite (kept_first _ _ _ _ EF) in Hk. destruct o as [[x' rest]|]; [|discriminate]. injection Hk as -> <-.
      cbn [snd option_map fst] in Hbf. exists lx', ys'. rewrite E. cbn [bind]. rewrite Hbf. cbn [option_map buf_of pk_tok].
      split; [reflexivity|]. split; [exact HI'|]. split; [reflexivity|]. split; [exact Hf|].
      rewrite Hf in Hk'. rewrite Hk'. exact (kept_first _ _ _ _ EF).
  Qed.

  Lemma peeked_span_of lx x : c_buf lx = Some (buf_of x) -> byte (e_start x) < byte (e_end x) ->
    peeked_span lx = mkspan (e_start x) (e_end x).
  Proof.
    intros Hb Hp. unfold peeked_span, c_peek_token_span. rewrite Hb. cbn [buf_of pk_start pk_cursor].
    destruct (pos_eqb_spec (e_start x) (e_end x)) as [E|_]; [rewrite E in Hp; lia|].
    unfold enclosing. destruct (Nat.ltb_spec (byte (e_end x)) (byte (e_start x))); [lia|reflexivity].
  Qed.

  Theorem any_error f k0 ks lx ys c st x s : Inv lx ys -> kept (c_filter lx) ys = x :: s ->
    position (fun k => tok_eqb (e_tok x) (tk0 k)) (k0 :: ks) = None ->
    run (S f) (GAny (k0 :: ks)) lx c st =
      (RErr (EUnexpected (c_parse_span lx) (mkspan (e_start x) (e_end x)) (ExAny (map tk0 (k0 :: ks))) (Some (e_tok x))), st)
    /\ run (S f) (GAnyIndex (k0 :: ks)) lx c st =
      (RErr (EUnexpected (c_parse_span lx) (mkspan (e_start x) (e_end x)) (ExAny (map tk0 (k0 :: ks))) (Some (e_tok x))), st)
    /\ byte (send (c_parse_span lx)) <= byte (e_start x).
  Proof using Htab Ht.
    intros HI Hk Hne.
    destruct (peek_cons_buf lx ys x s HI Hk) as (lx' & ys' & E & HI' & Hb & Hf & Hk').
    rewrite <- Hf in Hk'.
    destruct (next_cons m Htab t Ht lx' ys' x s HI' Hk') as (_ & _ & _ & _ & _ & _ & _ & _ & _ & _ & _ & C).
    split; [|split; [|apply (parse_span_before lx ys x HI); rewrite Hk; left; reflexivity]];
      cbn [run]; rewrite E; cbn [lift]; rewrite Hne, (peeked_span_of lx' x Hb C); reflexivity.
  Qed.

  Theorem any_end f k0 ks lx ys c st : Inv lx ys -> kept (c_filter lx) ys = [] ->
    exists ts, run (S f) (GAny (k0 :: ks)) lx c st =
      (RErr (EUnexpected (c_parse_span lx) ts (ExAny (map tk0 (k0 :: ks))) None), st).
  Proof using Htab Ht.
    intros HI Hk. destruct (peek_nil m Htab t Ht lx ys HI Hk) as (lx' & ys' & E & _).
    cbn [run]. rewrite E. cbn [lift]. eexists. reflexivity.
  Qed.
End Errors.
