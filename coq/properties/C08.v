(** C08 — Error collection never changes the meaning of valid input.
    Proved: (i) on the C06 core fragment (no recovering combinator) the verdict, the value and what
    remains deliverable do not depend on the context at all (sink or none, trail, lock) nor on the
    store, and nothing is sent; (ii) a recovering combinator around an ARBITRARY parser passes a
    success through untouched, with or without a sink, sends nothing on success, returns the
    parser's own error when there is no sink, and with a sink reports exactly that error
    (transformed by the context) as the next diagnostic before resuming or failing with the
    recovery error; (iii) a successful bounded list sends the count error only when it holds fewer
    than [lo] entries (C11).
    (iv) WHOLE GRAMMARS ([comm g]: recovering combinators - recover*, bracket*, list* - anywhere
    except inside the left branch of an ordered choice, a repetition body, separator or stop
    parser; optional parsers may contain anything): if the parse succeeds without a sink, the
    parse with a sink returns the same value and the same lexer, and the store (what the sink has
    received) is what it was - for ARBITRARY lexers without recover state, any fuel, any text.
    Its ingredients: without a sink no grammar sends anything, recovers, or leaves a recover
    state ([no_sink_good]); sink-free grammars do not depend on the sink ([rfree_indep]).
    (v) THE CONVERSE, for EVERY grammar (no restriction to committed positions), lexer, store and
    fuel: a run with a sink that reported nothing - its log ends as it started - is, step for
    step, the run without a sink: same verdict, value, returned lexer and store
    ([C08_silent_run_is_sinkless]); and what the sink has received only ever grows
    ([C08_log_only_grows]).
    (vi) THE ERROR HALF, for committed grammars ([comm g]), arbitrary lexers without recover state,
    any fuel, any text (RunSinkErr): when the sink-less parse fails with an error, the sink-enabled
    parse either fails with that very error having reported nothing, or its FIRST diagnostic is that
    error (up to the tags user transforms put around it); and the dichotomy: a sink-enabled run
    either reported nothing and IS the sink-less run, or the sink-less run failed and its error is
    what was reported first. All three sentences of the property are theorems about the whole model. *)
From Tephra Require Import MetricsSpec CLexer LexerFacts Run Peg RunCore RunRecover RunSink RunSilent RunSinkErr.

Theorem C08_sinkless_success_reproduced :
  forall fuel g lx c0 c1 st v lx' st',
  comm g = true -> crel c0 c1 -> has_sink c0 = false -> c_rec lx = None ->
  run fuel g lx c0 st = (ROk v lx', st') ->
  run fuel g lx c1 st = (ROk v lx', st) /\ st' = st.
Proof. exact sinkless_success_reproduced. Qed.
Print Assumptions C08_sinkless_success_reproduced.

Theorem C08_without_sink_nothing_is_sent :
  forall fuel g, noprobe g = true -> forall lx c st, has_sink c = false -> c_rec lx = None ->
  match run fuel g lx c st with
  | (ROk _ lx', st') => c_rec lx' = None /\ st' = st
  | (RErr e, st') => e <> ERecover /\ st' = st
  | (_, st') => st' = st
  end.
Proof. exact no_sink_good. Qed.
Print Assumptions C08_without_sink_nothing_is_sent.

Theorem C08_sink_free_grammars_ignore_the_sink :
  forall fuel g, rfree g = true -> forall lx c c' st, crel c c' ->
  run fuel g lx c st = run fuel g lx c' st.
Proof. exact rfree_indep. Qed.
Print Assumptions C08_sink_free_grammars_ignore_the_sink.

Theorem C08_silent_run_is_sinkless :
  forall fuel g lx c1 c0 st r,
  crel c1 c0 -> has_sink c0 = false -> run fuel g lx c1 st = r -> log (snd r) = log st ->
  run fuel g lx c0 st = r.
Proof. exact silent_run_is_sinkless. Qed.
Print Assumptions C08_silent_run_is_sinkless.

Theorem C08_log_only_grows :
  forall fuel g lx c st, exists more, log (snd (run fuel g lx c st)) = log st ++ more.
Proof. exact log_only_grows. Qed.
Print Assumptions C08_log_only_grows.

(** [comm] is satisfiable by grammars that do recover: a list of recovering items inside brackets
    after an optional prefix *)
(** the third sentence of the property *)
Theorem C08_sinkless_error_is_first_diagnostic :
  forall fuel g lx c1 c0 st e st0,
  comm g = true -> crel c1 c0 -> has_sink c0 = false -> c_rec lx = None ->
  run fuel g lx c0 st = (RErr e, st0) ->
  (run fuel g lx c1 st = (RErr e, st0) /\ log st0 = log st)
  \/ (exists e' more, log (snd (run fuel g lx c1 st)) = log st ++ e' :: more /\ strip e' = strip e).
Proof. exact sinkless_error_is_first_diagnostic. Qed.
Print Assumptions C08_sinkless_error_is_first_diagnostic.

(** everything at once *)
Theorem C08_dichotomy :
  forall fuel g lx c1 c0 st,
  comm g = true -> crel c1 c0 -> has_sink c0 = false -> c_rec lx = None ->
  (log (snd (run fuel g lx c1 st)) = log st /\ run fuel g lx c0 st = run fuel g lx c1 st)
  \/ (exists e s0 e' more, run fuel g lx c0 st = (RErr e, s0)
        /\ log (snd (run fuel g lx c1 st)) = log st ++ e' :: more /\ strip e' = strip e).
Proof. exact sink_run_dichotomy. Qed.
Print Assumptions C08_dichotomy.

(** concrete: both(recover_default(before ;, one a), one ;) under a pushed transform, in a context that
    already carries another transform, on "b ;":
    without a sink the parse fails with "expected a, found b"; with a sink it succeeds and the first
    (only) diagnostic is that error inside the transform's tag *)
Example C08_error_half_example :
  let t := [Ch 1 1 2; Ch 1 1 6; Ch 1 1 14] in
  let g := GCtxPush 7 (GBoth (GRecoverDef (1, RBefore [KSemi]) (GOne KA)) (GOne KSemi)) in
  match c_with_filter (c_new Plain t) (Some (FDrop [KWs])) with
  | Ok lx =>
    match run 12 g lx (mkctx false [3] false) (mkstore [] []), run 12 g lx (mkctx true [3] false) (mkstore [] []) with
    | (RErr e, _), (ROk _ _, st1) => match log st1 with [e'] => strip e' = strip e | _ => False end
    | _, _ => False
    end
  | _ => False
  end.
Proof. vm_compute. reflexivity. Qed.
Print Assumptions C08_error_half_example.

Example C08_comm_example :
  comm (GRight (GMaybe (GRecoverDef (1, RBefore [KSemi]) (GOne KA)))
               (GBracketDef [KLP] (GListDef (GRecoverDef (2, RBefore [KComma]) (GOne KB)) KComma [KRP]) [KRP] [])) = true
  /\ comm (GEither (GRecoverDef (1, RBefore [KSemi]) (GOne KA)) (GOne KB)) = false.
Proof. vm_compute. split; reflexivity. Qed.
Print Assumptions C08_comm_example.


Theorem C08_core_context_irrelevant :
  forall m, 1 <= tabw m -> forall t, wf_text t ->
  forall fuel g, in_core g = true -> gdepth g < fuel ->
  forall lx ys c c' st st', Inv m t lx ys ->
  match run fuel g lx c st, run fuel g lx c' st' with
  | (ROk v l1, s1), (ROk v' l2, s2) =>
    v = v' /\ s1 = st /\ s2 = st' /\
    exists ys1 ys2, Inv m t l1 ys1 /\ Inv m t l2 ys2 /\ kept (c_filter lx) ys1 = kept (c_filter lx) ys2
  | (RErr _, s1), (RErr _, s2) => s1 = st /\ s2 = st'
  | _, _ => False
  end.
Proof. exact core_ctx_irrelevant. Qed.
Print Assumptions C08_core_context_irrelevant.

Theorem C08_success_passes_recovering_combinators :
  forall f r a lx c st v lx' st1,
  run f a lx c st = (ROk v lx', st1) ->
  run (S f) (GRecoverDef r a) lx c st = (ROk v lx', st1) /\ run (S f) (GRecover r a) lx c st = (ROk (VSome v) lx', st1).
Proof. exact recover_default_ok. Qed.
Print Assumptions C08_success_passes_recovering_combinators.

Theorem C08_no_sink_same_error :
  forall f r a lx c st e st1,
  run f a lx c st = (RErr e, st1) -> has_sink c = false ->
  run (S f) (GRecoverDef r a) lx c st = (RErr e, st1) /\ run (S f) (GRecover r a) lx c st = (RErr e, st1).
Proof. exact recover_default_no_sink. Qed.
Print Assumptions C08_no_sink_same_error.

(** with a sink the same error is the next diagnostic, whatever happens afterwards *)
Theorem C08_sink_reports_that_error_first :
  forall m, 1 <= tabw m -> forall t, wf_text t ->
  forall f id ks a lx ys c st e st1, Inv m t lx ys ->
  run f a lx c st = (RErr e, st1) -> has_sink c = true ->
  exists o, run (S f) (GRecoverDef (id, RBefore ks) a) lx c st
            = (o, st_log st1 (log st1 ++ [apply_trail (trail c) e])).
Proof.
  intros m Htab t Ht f id ks a lx ys c st e st1 HI Ha Hs.
  pose proof (recover_default_before m Htab t Ht f id ks a lx ys c st e st1 HI Ha Hs) as H. cbv zeta in H.
  destruct (find_first ks (kept (c_filter lx) ys)) as [[[p x] rest]|].
  - destruct H as (lx' & ys' & E & _). eexists. exact E.
  - eexists. exact H.
Qed.
Print Assumptions C08_sink_reports_that_error_first.

(** concrete: a valid input, with and without sink: same value, same end, nothing sent *)
Example C08_example :
  let t := [Ch 1 1 1; Ch 1 1 13; Ch 1 1 1] in
  let g := GListDef (GRecoverDef (1, RBefore [KComma]) (GOne KA)) KComma [KSemi] in
  match c_with_filter (c_new Plain t) None with
  | Ok lx =>
    match run 60 g lx (ctx_new true) (mkstore [] []), run 60 g lx (ctx_new false) (mkstore [] []) with
    | (ROk v1 l1, s1), (ROk v2 l2, s2) => v1 = v2 /\ c_cursor_pos l1 = c_cursor_pos l2 /\ log s1 = [] /\ log s2 = []
    | _, _ => False
    end
  | _ => False
  end.
Proof. vm_compute. repeat split. Qed.
Print Assumptions C08_example.
