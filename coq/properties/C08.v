(** C08 — Error collection never changes the meaning of valid input.
    Proved: (i) on the C06 core fragment (no recovering combinator) the verdict, the value and what
    remains deliverable do not depend on the context at all (sink or none, trail, lock) nor on the
    store, and nothing is sent; (ii) a recovering combinator around an ARBITRARY parser passes a
    success through untouched, with or without a sink, sends nothing on success, returns the
    parser's own error when there is no sink, and with a sink reports exactly that error
    (transformed by the context) as the next diagnostic before resuming or failing with the
    recovery error; (iii) a successful bounded list sends the count error only when it holds fewer
    than [lo] entries (C11).
    Partial: the composition over whole grammars with recovering combinators in committed
    positions (a sink-less success implies the sink-enabled run is identical) is decided by the
    correspondence run, which executes every case with Context::empty and Context::new(sink), and
    the python oracle; it is not proved. *)
From Tephra Require Import MetricsSpec CLexer LexerFacts Run Peg RunCore RunRecover.

Theorem C08_core_context_irrelevant :
  forall m, 1 <= tabw m -> forall t, wf_text t ->
  forall fuel g, in_core g = true -> gdepth g < fuel ->
  forall lx ys c c' st st', Inv m t lx ys ->
  match run fuel g lx c st, run fuel g lx c' st' with
  | (ROk v l1, s1), (ROk v' l2, s2) =>
    v = v' /\ s1 = st /\ s2 = st' /\
    exists ys1 ys2, Inv m t l1 ys1 /\ Inv m t l2 ys2 /\ kept (c_filter lx) ys1 = kept (c_filter lx) ys2
  | (RErr _, s1), (RErr _, s2) => s1 = st /\ s2 = st'
  | _, _ => False
  end.
Proof. exact core_ctx_irrelevant. Qed.
Print Assumptions C08_core_context_irrelevant.

Theorem C08_success_passes_recovering_combinators :
  forall f r a lx c st v lx' st1,
  run f a lx c st = (ROk v lx', st1) ->
  run (S f) (GRecoverDef r a) lx c st = (ROk v lx', st1) /\ run (S f) (GRecover r a) lx c st = (ROk (VSome v) lx', st1).
Proof. exact recover_default_ok. Qed.
Print Assumptions C08_success_passes_recovering_combinators.

Theorem C08_no_sink_same_error :
  forall f r a lx c st e st1,
  run f a lx c st = (RErr e, st1) -> has_sink c = false ->
  run (S f) (GRecoverDef r a) lx c st = (RErr e, st1) /\ run (S f) (GRecover r a) lx c st = (RErr e, st1).
Proof. exact recover_default_no_sink. Qed.
Print Assumptions C08_no_sink_same_error.

(** with a sink the same error is the next diagnostic, whatever happens afterwards *)
Theorem C08_sink_reports_that_error_first :
  forall m, 1 <= tabw m -> forall t, wf_text t ->
  forall f id ks a lx ys c st e st1, Inv m t lx ys ->
  run f a lx c st = (RErr e, st1) -> has_sink c = true ->
  exists o, run (S f) (GRecoverDef (id, RBefore ks) a) lx c st
            = (o, st_log st1 (log st1 ++ [apply_trail (trail c) e])).
Proof.
  intros m Htab t Ht f id ks a lx ys c st e st1 HI Ha Hs.
  pose proof (recover_default_before m Htab t Ht f id ks a lx ys c st e st1 HI Ha Hs) as H. cbv zeta in H.
  destruct (find_first ks (kept (c_filter lx) ys)) as [[[p x] rest]|].
  - destruct H as (lx' & ys' & E & _). eexists. exact E.
  - eexists. exact H.
Qed.
Print Assumptions C08_sink_reports_that_error_first.

(** concrete: a valid input, with and without sink: same value, same end, nothing sent *)
Example C08_example :
  let t := [Ch 1 1 1; Ch 1 1 13; Ch 1 1 1] in
  let g := GListDef (GRecoverDef (1, RBefore [KComma]) (GOne KA)) KComma [KSemi] in
  match c_with_filter (c_new Plain t) None with
  | Ok lx =>
    match run 60 g lx (ctx_new true) (mkstore [] []), run 60 g lx (ctx_new false) (mkstore [] []) with
    | (ROk v1 l1, s1), (ROk v2 l2, s2) => v1 = v2 /\ c_cursor_pos l1 = c_cursor_pos l2 /\ log s1 = [] /\ log s2 = []
    | _, _ => False
    end
  | _ => False
  end.
Proof. vm_compute. repeat split. Qed.
Print Assumptions C08_example.
