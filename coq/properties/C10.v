(** C10 — Bracket combinators match properly nested brackets of every kind.
    Spec: [ref_match], a reference stack matcher over the deliverable tokens (a plain stack of the
    opened brackets, no lexers, no run-length encoding, no span stack). Theorem: for every text /
    scanner state / filter / look-ahead state, every open/close/abort token set and an ARBITRARY
    inner parser, the bracket scan of bracket.rs (run-length encoded stack, parallel stack of open
    spans, lexer kept at the first open bracket) returns exactly the reference's answer: on a match
    the inner parser is started on the tokens following the first open bracket, the index is the
    kind of that pair, and the returned lexer delivers the tokens following the partner, whatever
    the inner parser consumed; with no match the error is the reference's classification
    (none-found at the start position or at the abort token, unopened at the close token, unclosed
    at the first open bracket, mismatched with the spans of the innermost open bracket and the
    offending close bracket). *)
From Tephra Require Import MetricsSpec CLexer LexerFacts Run Peg RunCore RunBracket.

Theorem C10_scan_is_reference_matcher :
  forall m, 1 <= tabw m -> forall t, wf_text t ->
  forall os cs ab lx ys, Inv m t lx ys ->
  match ref_match os cs ab (span_at (c_cursor_pos lx)) (kept (c_filter lx) ys) None [] with
  | RMatch o ao x r ci =>
    exists lo lc, match_nested_brackets lx os cs ab = BM lo lc ci
      /\ looks_at m t (c_filter lx) lo o ao /\ looks_at m t (c_filter lx) lc x r
  | RErrB e => match_nested_brackets lx os cs ab = BErr e
  end.
Proof. exact match_nested_brackets_spec. Qed.
Print Assumptions C10_scan_is_reference_matcher.

(** the invariant-carrying statement: from any state of the scan *)
Theorem C10_scan_loop :
  forall m, 1 <= tabw m -> forall t, wf_text t ->
  forall os cs ab start s fuel lx ys ol stack sps first opens,
  Inv m t lx ys -> kept (c_filter lx) ys = s -> length s < fuel ->
  related m t (c_filter lx) ol stack sps first opens ->
  match ref_match os cs ab start s first opens with
  | RMatch o ao x r ci =>
    exists lo lc, bracket_loop fuel os cs ab start lx ol stack sps = BM lo lc ci
      /\ looks_at m t (c_filter lx) lo o ao /\ looks_at m t (c_filter lx) lc x r
  | RErrB e => bracket_loop fuel os cs ab start lx ol stack sps = BErr e
  end.
Proof. exact bracket_loop_spec. Qed.
Print Assumptions C10_scan_loop.

Theorem C10_bracket_default_index :
  forall m, 1 <= tabw m -> forall t, wf_text t ->
  forall f os a cs ab lx ys c st, Inv m t lx ys -> bracket_pre os cs = true ->
  bracket_claim m t (GBracketDefIdx os a cs ab) (fun v i => VPair v (VNat i)) (fun i => VPair VDflt (VNat i)) f os a cs ab lx ys c st.
Proof. exact bracket_default_index_spec. Qed.
Print Assumptions C10_bracket_default_index.

Theorem C10_bracket_index :
  forall m, 1 <= tabw m -> forall t, wf_text t ->
  forall f os a cs ab lx ys c st, Inv m t lx ys -> bracket_pre os cs = true ->
  bracket_claim m t (GBracketIdx os a cs ab) (fun v i => VPair (VSome v) (VNat i)) (fun i => VPair VNone (VNat i)) f os a cs ab lx ys c st.
Proof. exact bracket_index_spec. Qed.
Print Assumptions C10_bracket_index.

Theorem C10_bracket_default :
  forall m, 1 <= tabw m -> forall t, wf_text t ->
  forall f os a cs ab lx ys c st, Inv m t lx ys -> bracket_pre os cs = true ->
  bracket_claim m t (GBracketDef os a cs ab) (fun v _ => v) (fun _ => VDflt) f os a cs ab lx ys c st.
Proof. exact bracket_default_spec. Qed.
Print Assumptions C10_bracket_default.

Theorem C10_bracket :
  forall m, 1 <= tabw m -> forall t, wf_text t ->
  forall f os a cs ab lx ys c st, Inv m t lx ys -> bracket_pre os cs = true ->
  bracket_claim m t (GBracket os a cs ab) (fun v _ => VSome v) (fun _ => VNone) f os a cs ab lx ys c st.
Proof. exact bracket_spec. Qed.
Print Assumptions C10_bracket.

(** what [bracket_claim] says *)
Theorem C10_claim_meaning :
  forall m t g okv dfl f os a cs ab lx ys c st,
  bracket_claim m t g okv dfl f os a cs ab lx ys c st =
  match ref_match os cs ab (span_at (c_cursor_pos lx)) (kept (c_filter lx) ys) None [] with
  | RMatch o ao x r ci =>
    exists inner yi cl1 y1, Inv m t inner yi /\ c_filter inner = c_filter lx /\ kept (c_filter lx) yi = ao
      /\ Inv m t cl1 y1 /\ c_filter cl1 = c_filter lx /\ kept (c_filter lx) y1 = r
      /\ run (S f) g lx c st = bracket_result okv dfl f a c st inner cl1 ci
  | RErrB e => run (S f) g lx c st = (RErr e, st)
  end.
Proof. reflexivity. Qed.
Print Assumptions C10_claim_meaning.

(** concrete: "( [ a ] ) b" with kinds (,[ / ),]: the outer pair is found, index 0, the inner parser
    sees "[ a ]", the returned lexer stands before b; and "( [ a ) ]" is a mismatch naming "[" and ")" *)
Example C10_example :
  let t1 := [Ch 1 1 16; Ch 1 1 18; Ch 1 1 1; Ch 1 1 19; Ch 1 1 17; Ch 1 1 2] in
  let t2 := [Ch 1 1 16; Ch 1 1 18; Ch 1 1 1; Ch 1 1 17; Ch 1 1 19] in
  let g := GBracketDefIdx [KLP; KLK] (GSeq [KLK; KA; KRK]) [KRP; KRK] [] in
  match c_with_filter (c_new Plain t1) None, c_with_filter (c_new Plain t2) None with
  | Ok l1, Ok l2 =>
    match run 30 g l1 (ctx_new true) (mkstore [] []), run 30 g l2 (ctx_new true) (mkstore [] []) with
    | (ROk (VPair _ (VNat i)) l1', _), (RErr (EBracket BMismatch s1 (Some s2)), _) =>
      i = 0 /\ byte (c_cursor_pos l1') = 5 /\ byte (sstart s1) = 1 /\ byte (sstart s2) = 3
    | _, _ => False
    end
  | _, _ => False
  end.
Proof. vm_compute. repeat split. Qed.
Print Assumptions C10_example.
