(** C19 — Position navigation is total and consistent with forward measurement.
    [cpos m t k] is the k-th canonical position of text [t] (MetricsSpec: byte = bytes of the
    first k units, line = number of line-ending units among them, column = display width of
    the characters since the last one, tabs advancing to the next tab stop); [nunits m t]
    the number of units. Every result is [Ok _]: no navigation function panics or diverges
    on a canonical base, for any text, any line ending and any tab width >= 1. *)
From Tephra Require Import MetricsSpec MetricsFacts Source SourceFacts.

(** What [cpos] means: bytes of the first k units, number of line endings among them, display
    width (tab stops) of the characters since the last line ending. *)
Theorem C19_canonical_position_meaning :
  forall m t k,
  cpos m t k = mkpos (ubytes m (firstn k (units m t))) (breaks (firstn k (units m t)))
                     (width (tabw m) (last_line (firstn k (units m t)))).
Proof. exact cpos_decl. Qed.
Print Assumptions C19_canonical_position_meaning.

Theorem C19_next_prev_roundtrip :
  forall m t, 1 <= tabw m -> wf_text t -> forall k, k < nunits m t ->
  next_position m t (cpos m t k) = Ok (Some (cpos m t (S k))) /\
  previous_position m t (cpos m t (S k)) = Ok (Some (cpos m t k)).
Proof. exact t_next_prev. Qed.
Print Assumptions C19_next_prev_roundtrip.

Theorem C19_prev_next_roundtrip :
  forall m t, 1 <= tabw m -> wf_text t -> forall k, 0 < k -> k <= nunits m t ->
  previous_position m t (cpos m t k) = Ok (Some (cpos m t (k - 1))) /\
  next_position m t (cpos m t (k - 1)) = Ok (Some (cpos m t k)).
Proof. exact t_prev_next. Qed.
Print Assumptions C19_prev_next_roundtrip.

Theorem C19_next_prev_total :
  forall m t, 1 <= tabw m -> wf_text t -> forall k, k <= nunits m t ->
  next_position m t (cpos m t k) = Ok (if k <? nunits m t then Some (cpos m t (S k)) else None) /\
  previous_position m t (cpos m t k) = Ok (match k with 0 => None | S j => Some (cpos m t j) end).
Proof. intros m t Htab Ht k Hk. split; [exact (t_next m t Htab Ht k Hk)|exact (t_prev m t Htab Ht k Hk)]. Qed.
Print Assumptions C19_next_prev_total.

(** line-start, line-end, next-line-start, previous-line-end, is_line_break: the canonical
    positions of the declaratively defined boundaries ([line_start_k]: just after the last
    line-ending unit before k; [line_end_k]: the next line-ending unit at or after k). *)
Theorem C19_line_bounds :
  forall m t, 1 <= tabw m -> wf_text t -> forall k, k <= nunits m t ->
  let us := units m t in
  line_start_position m t (cpos m t k) = Ok (cpos m t (line_start_k us k)) /\
  line_end_position m t (cpos m t k) = Ok (cpos m t (line_end_k us k)) /\
  next_line_start_position m t (cpos m t k) =
    Ok (if line_end_k us k <? nunits m t then Some (cpos m t (S (line_end_k us k))) else None) /\
  previous_line_end_position m t (cpos m t k) =
    Ok (match line_start_k us k with 0 => None | S j => Some (cpos m t j) end) /\
  is_line_break m t (byte (cpos m t k)) =
    Ok (match nth_error us k with Some u => is_lb u | None => false end).
Proof. exact t_line_bounds. Qed.
Print Assumptions C19_line_bounds.

Theorem C19_line_end_index_meaning :
  forall us k, k <= length us ->
  let e := line_end_k us k in
  k <= e <= length us /\ (forall i, k <= i < e -> exists c, nth_error us i = Some (UCh c))
  /\ (e < length us -> nth_error us e = Some ULb).
Proof. exact line_end_k_spec. Qed.
Print Assumptions C19_line_end_index_meaning.

Theorem C19_start_end_inverse :
  forall m t, 1 <= tabw m -> wf_text t -> forall k, k <= nunits m t ->
  start_position m t (cpos m t k) = Ok (cpos m t 0) /\
  end_position m t (cpos m t k) = Ok (cpos m t (nunits m t)).
Proof. exact t_start_end. Qed.
Print Assumptions C19_start_end_inverse.

(** position_after_str returns [Some q] exactly when the pattern is the text of j whole units
    starting at the base, and then q is the canonical position after them; otherwise [None];
    never a panic — for every pattern (empty, too long, splitting a character or a CRLF). *)
Theorem C19_after_str :
  forall m t, 1 <= tabw m -> wf_text t -> forall k pat, k <= nunits m t -> wf_text pat ->
  exists r, position_after_str m t (cpos m t k) pat = Ok r /\
    (forall q, r = Some q -> exists j, k + j <= nunits m t
       /\ ctext m (firstn j (skipn k (units m t))) = pat /\ q = cpos m t (k + j)) /\
    (forall j, k + j <= nunits m t -> ctext m (firstn j (skipn k (units m t))) = pat ->
       r = Some (cpos m t (k + j))).
Proof. exact t_after_str. Qed.
Print Assumptions C19_after_str.

Theorem C19_chars_matching :
  forall m t, 1 <= tabw m -> wf_text t -> forall k f, k <= nunits m t ->
  position_after_chars_matching m t (cpos m t k) f =
    Ok (match class_run m f (skipn k (units m t)) with 0 => None | j => Some (cpos m t (k + j)) end) /\
  next_position_after_chars_matching m t (cpos m t k) f =
    Ok (match skipn k (units m t) with
        | u :: _ => if forallb f (utext m u) then Some (cpos m t (S k)) else None
        | [] => None
        end).
Proof. exact t_chars_matching. Qed.
Print Assumptions C19_chars_matching.

(** The unit reading is a faithful reading of the text, and canonical positions are totally
    ordered by their byte (so they form a chain in the sense of C17). *)
Theorem C19_units_faithful :
  forall m t, wf_text t -> ctext m (units m t) = t /\ wf_units m (units m t).
Proof. intros m t Ht. split; [apply ctext_units|apply wf_units_units, Ht]. Qed.
Print Assumptions C19_units_faithful.

Theorem C19_canonical_positions_chain :
  forall m t, 1 <= tabw m -> wf_text t ->
  forall p q, Canon m t p -> Canon m t q -> byte p = byte q -> p = q.
Proof. exact canon_chain. Qed.
Print Assumptions C19_canonical_positions_chain.

(** Non-vacuity and a concrete reading: "a<TAB>é<LF>b" with tab width 4. *)
Theorem C19_example :
  let m := {| le := LE_Lf; tabw := 4 |} in
  let t := [Ch 1 1 97; Tab; Ch 2 1 233; Lf; Ch 1 1 98] in
  wf_text t /\ nunits m t = 5 /\
  map (cpos m t) [0; 1; 2; 3; 4; 5]
  = [mkpos 0 0 0; mkpos 1 0 1; mkpos 2 0 4; mkpos 4 0 5; mkpos 5 1 0; mkpos 6 1 1].
Proof. cbn. repeat split. repeat constructor. Qed.
Print Assumptions C19_example.

(** * The same advances through the SourceText wrappers of a source that has a start position
    (a window, or [with_start_position]): parent coordinates in, parent coordinates out. [gpos m us off i] is the
    parent position of the i-th unit boundary of the source whose text reads [us] and whose start position is [off]. *)
Theorem C19_source_after_str :
  forall m, 1 <= tabw m -> forall us, wf_units m us -> forall off name i pat, i <= length us -> wf_text pat ->
  exists r, src_position_after_str (mksource (ctext m us) name m off) (gpos m us off i) pat = Ok r /\
    (forall q, r = Some q -> exists j, i + j <= length us /\ ctext m (firstn j (skipn i us)) = pat /\ q = gpos m us off (i + j)) /\
    (forall j, i + j <= length us -> ctext m (firstn j (skipn i us)) = pat -> r = Some (gpos m us off (i + j))).
Proof. exact src_position_after_str_G. Qed.
Print Assumptions C19_source_after_str.

Theorem C19_source_chars_matching :
  forall m, 1 <= tabw m -> forall us, wf_units m us -> forall off name i f, i <= length us ->
  src_position_after_chars_matching (mksource (ctext m us) name m off) (gpos m us off i) f =
    Ok (match class_run m f (skipn i us) with 0 => None | j => Some (gpos m us off (i + j)) end)
  /\ src_next_position_after_chars_matching (mksource (ctext m us) name m off) (gpos m us off i) f =
    Ok (match skipn i us with
        | u :: _ => if forallb f (utext m u) then Some (gpos m us off (S i)) else None
        | [] => None
        end).
Proof.
  intros m Htab us Hwf off name i f Hi. split.
  - exact (src_position_after_chars_matching_G m Htab us Hwf off name i f Hi).
  - exact (src_next_position_after_chars_matching_G m Htab us Hwf off name i f Hi).
Qed.
Print Assumptions C19_source_chars_matching.
