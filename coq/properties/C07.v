(** C07 — Repetition honours its bounds, is greedy, and never strands a separator.
    The loops of repeat.rs are characterised for ARBITRARY item, separator and stop parsers (any
    grammar of the model, at any fuel): [iter] is the declarative reading "items taken one after
    the other, each from the lexer the previous one returned"; the loops return exactly a maximal
    such iteration. "Never strands a separator": a step is separator-then-item as one unit
    ([right_of]); when it fails the returned lexer is the one the last accepted step returned.
    Fuel: the theorems are about results that are not RFuel; that enough fuel exists is C02.
    At the end of the file: the executable specification [PegRep.prep_top] (greedy, bounded, with
    the stop parser of the until-variants, counting = length of collecting), what it says about the
    bounds, and the theorem that on well-formed grammars - repetitions nested in repetitions, items
    from the whole C06 family, syntactically non-nullable - the interpreter computes exactly it. *)
From Tephra Require Import MetricsSpec CLexer LexerFacts LexerFin Run Peg PegRep RunCore RunLoops RunLoopsPeg RunSafe RunTerm RunPeg RunPegTotal.

(** intersperse (and repeat = intersperse with the empty separator, intersperse_default = with a
    separator token) *)
Theorem C07_intersperse_ok :
  forall f lo hi a s lx c st v lxf stf,
  run (S f) (GIntersperse lo hi a s) lx c st = (ROk v lxf, stf) ->
  exists l, v = VList l /\ lo <= length l /\ (forall h, hi = Some h -> length l <= h) /\
    ((l = [] /\ lxf = lx /\
       (hi = Some 0 /\ stf = st \/ lo = 0 /\ exists e, run f a lx c st = (RErr e, stf)))
     \/ (exists v1 lx1 st1 stl, run f a lx c st = (ROk v1 lx1, st1)
           /\ iter None (right_of (run f) s a c) [v1] lx1 st1 l lxf stl
           /\ (ge_opt (length l) hi = true /\ stf = stl
               \/ exists e, right_of (run f) s a c lxf stl = (RErr e, stf)))).
Proof. intros f lo hi a s lx c st v lxf stf. exact (run_intersperse_ok (run f) f lo hi a s lx c st v lxf stf). Qed.
Print Assumptions C07_intersperse_ok.

Theorem C07_repeat_is_intersperse_empty :
  forall f lo hi stopg a lx c st,
  run (S f) (GRepeat lo hi a) lx c st = run (S f) (GIntersperse lo hi a GEmpty) lx c st
  /\ run (S f) (GRepeatUntil lo hi stopg a) lx c st = run (S f) (GIntersperseUntil lo hi stopg a GEmpty) lx c st.
Proof. intros. split; reflexivity. Qed.
Print Assumptions C07_repeat_is_intersperse_empty.

Theorem C07_intersperse_default_is_intersperse_one :
  forall f lo hi a k lx c st,
  run (S f) (GIntersperseDef lo hi a k) lx c st = run (S f) (GIntersperse lo hi a (GOne k)) lx c st.
Proof. intros. reflexivity. Qed.
Print Assumptions C07_intersperse_default_is_intersperse_one.

(** failure: exactly when fewer than [lo] items could be taken *)
Theorem C07_intersperse_err :
  forall f lo hi a s lx c st e stf,
  run (S f) (GIntersperse lo hi a s) lx c st = (RErr e, stf) ->
  (0 < lo /\ run f a lx c st = (RErr e, stf))
  \/ (exists v1 lx1 st1 l lxm stl, run f a lx c st = (ROk v1 lx1, st1)
        /\ iter None (right_of (run f) s a c) [v1] lx1 st1 l lxm stl /\ length l < lo
        /\ right_of (run f) s a c lxm stl = (RErr e, stf)).
Proof. intros f lo hi a s lx c st e stf. exact (run_intersperse_err (run f) f lo hi a s lx c st e stf). Qed.
Print Assumptions C07_intersperse_err.

(** the until-variants *)
Theorem C07_intersperse_until_ok :
  forall f lo hi stopg a s lx c st v lxf stf,
  run (S f) (GIntersperseUntil lo hi stopg a s) lx c st = (ROk v lxf, stf) ->
  let stopf := fun l st => run f stopg l c st in
  exists l, v = VList l /\ (forall h, hi = Some h -> length l <= h) /\
    ((l = [] /\ lxf = lx /\
       (hi = Some 0 /\ stf = st
        \/ (exists v0 l0, stopf lx st = (ROk v0 l0, stf))
        \/ lo = 0 /\ exists e0 st0 e, stopf lx st = (RErr e0, st0) /\ run f a lx c st0 = (RErr e, stf)))
     \/ (exists e0 st0 v1 lx1 st1 stl, stopf lx st = (RErr e0, st0) /\ run f a lx c st0 = (ROk v1 lx1, st1)
           /\ iter (Some stopf) (right_of (run f) s a c) [v1] lx1 st1 l lxf stl
           /\ (ge_opt (length l) hi = true /\ lo <= length l /\ stf = stl
               \/ (exists v0 l0, stopf lxf stl = (ROk v0 l0, stf))
               \/ lo <= length l /\ exists e1 st2 e, stopf lxf stl = (RErr e1, st2)
                                                   /\ right_of (run f) s a c lxf st2 = (RErr e, stf)))).
Proof. intros f lo hi stopg a s lx c st v lxf stf. exact (run_intersperse_until_ok (run f) f lo hi stopg a s lx c st v lxf stf). Qed.
Print Assumptions C07_intersperse_until_ok.

(** the counting variants report exactly the number of items the collecting variants return, at
    the same lexer and store *)
Theorem C07_count_variants :
  forall f lo hi stopg a s lx c st,
  let cnt r := match r with (ROk (VList l) lx', st') => (ROk (VNat (length l)) lx', st') | _ => r end in
  run (S f) (GRepeatCount lo hi a) lx c st = cnt (run (S f) (GRepeat lo hi a) lx c st)
  /\ run (S f) (GIntersperseCount lo hi a s) lx c st = cnt (run (S f) (GIntersperse lo hi a s) lx c st)
  /\ run (S f) (GRepeatCountUntil lo hi stopg a) lx c st = cnt (run (S f) (GRepeatUntil lo hi stopg a) lx c st)
  /\ run (S f) (GIntersperseCountUntil lo hi stopg a s) lx c st
     = cnt (run (S f) (GIntersperseUntil lo hi stopg a s) lx c st).
Proof. intros. subst cnt. repeat split; cbn [run]; apply count_of_spec. Qed.
Print Assumptions C07_count_variants.

(** in terms of TOKENS, for item and separator parsers of the C06 core fragment: the repetition is
    the greedy PEG repetition  a (s a)*  on the deliverable tokens - the items are the successive
    PEG matches; it stops because the upper bound is reached or because "separator then item" does
    not match what follows, and then nothing of a dangling separator is consumed (the returned
    lexer delivers exactly the tokens after the last item); nothing is sent to the sink *)
Theorem C07_intersperse_is_greedy_peg_repetition :
  forall m, 1 <= tabw m -> forall t, wf_text t ->
  forall f lo hi a s lx ys c st v lxf stf,
  in_core a = true -> in_core s = true -> gdepth a < f -> gdepth s < f -> Inv m t lx ys ->
  run (S f) (GIntersperse lo hi a s) lx c st = (ROk v lxf, stf) ->
  exists l ysf, v = VList l /\ lo <= length l /\ (forall h, hi = Some h -> length l <= h) /\ stf = st
    /\ Inv m t lxf ysf /\ c_filter lxf = c_filter lx
    /\ ((l = [] /\ lxf = lx /\ (hi = Some 0 \/ lo = 0 /\ peg a (kept (c_filter lx) ys) = Some PFail))
        \/ (exists v1 more s1, l = v1 :: more /\ peg a (kept (c_filter lx) ys) = Some (POk v1 s1)
              /\ piter a s s1 more (kept (c_filter lx) ysf)
              /\ (ge_opt (length l) hi = true \/ peg (GRight s a) (kept (c_filter lx) ysf) = Some PFail))).
Proof. exact intersperse_tokens. Qed.
Print Assumptions C07_intersperse_is_greedy_peg_repetition.

(** concrete: intersperse(one a, one c, 0, None) on "a c a c" takes two items and leaves the
    trailing separator unconsumed *)
Example C07_example :
  let t := [Ch 1 1 1; Ch 1 1 3; Ch 1 1 1; Ch 1 1 3] in
  match c_with_filter (c_new Plain t) None with
  | Ok lx => match run 20 (GIntersperse 0 None (GOne KA) (GOne KC)) lx (ctx_new true) (mkstore [] []) with
             | (ROk (VList l) lx', _) => length l = 2 /\ byte (c_cursor_pos lx') = 3
             | _ => False
             end
  | _ => False
  end.
Proof. vm_compute. split; reflexivity. Qed.
Print Assumptions C07_example.

(** * The executable specification and the exact answer *)

(** the counting variants report exactly the number of items the collecting variants return *)
Theorem C07_spec_count_is_length :
  forall cl lo hi a st sp s,
  peg2 cl (GRepeatCount lo hi a) s = pcount (peg2 cl (GRepeat lo hi a) s) /\
  peg2 cl (GRepeatCountUntil lo hi st a) s = pcount (peg2 cl (GRepeatUntil lo hi st a) s) /\
  peg2 cl (GIntersperseCount lo hi a sp) s = pcount (peg2 cl (GIntersperse lo hi a sp) s) /\
  peg2 cl (GIntersperseCountUntil lo hi st a sp) s = pcount (peg2 cl (GIntersperseUntil lo hi st a sp) s).
Proof. intros. repeat split. Qed.
Print Assumptions C07_spec_count_is_length.

(** without a stop parser a successful repetition holds between [lo] and [hi] items (it FAILS when
    fewer than [lo] can be taken: [prep] returns PFail from the mandatory phase) *)
Theorem C07_spec_bounds :
  forall unitp item lo hi s v s', hi_ok lo hi = true ->
  prep_top unitp None item lo hi s = Some (POk v s') ->
  exists l, v = VList l /\ lo <= length l /\ (forall h, hi = Some h -> length l <= h).
Proof. exact prep_top_bounds. Qed.
Print Assumptions C07_spec_bounds.

(** greedy: without a stop parser a repetition ends only because the upper bound is reached or because one
    more unit (separator then item) does not match what follows *)
Theorem C07_spec_greedy :
  forall unitp n lo hi vals s v s',
  prep unitp None n lo hi vals s = Some (POk v s') ->
  exists l, v = VList l /\ (lt_opt (length l) hi = false \/ unitp s' = Some PFail).
Proof. exact prep_maximal. Qed.
Print Assumptions C07_spec_greedy.

(** the until-variants stop, consuming nothing further and without failing, as soon as the stop parser
    succeeds at an item boundary *)
Theorem C07_spec_until_stops :
  forall unitp stopp n lo hi vals s, stop_hit stopp s = Some true ->
  (length vals <? lo) || lt_opt (length vals) hi = true ->
  prep unitp stopp (S n) lo hi vals s = Some (POk (VList vals) s).
Proof. exact prep_stops. Qed.
Print Assumptions C07_spec_until_stops.

(** every specification result is a suffix-length of the input: repetitions only move forwards, and a
    repetition with a lower bound of at least one over a non-nullable item consumes *)
Theorem C07_spec_consumes :
  forall cl g, nn g = true -> forall s v s', peg2 cl g s = Some (POk v s') -> length s' < length s.
Proof. exact peg2_lt. Qed.
Print Assumptions C07_spec_consumes.

(** the interpreter computes the specification, on every well-formed grammar, from every lexer in the
    scan, with fuel above depth + bytes left + 3 *)
Theorem C07_exact :
  forall m, 1 <= tabw m -> forall t, wf_text t ->
  forall g, wfr g = true ->
  forall F lx ys c st, Inv m t lx ys -> tdepth g + rem t lx + 3 <= F ->
  exists r, peg2 (clean t lx ys) g (kept (c_filter lx) ys) = Some r /\ ag2 m t r lx ys (run F g lx c st) st.
Proof. exact rep_exact. Qed.
Print Assumptions C07_exact.

(** non-nullable items make progress: the hypothesis of C02's termination theorem is discharged syntactically *)
Theorem C07_items_make_progress :
  forall m, 1 <= tabw m -> forall t, wf_text t ->
  forall g, wfr g = true -> nn g = true -> progress m t g.
Proof. exact nn_progress. Qed.
Print Assumptions C07_items_make_progress.

(** concrete: the specification on a token list. intersperse(1..3, both(one a, maybe(one b)), one ,)
    followed by a dangling separator: three items at most, the fourth separator is not consumed *)
Example C07_spec_example :
  let e k i := ((mktok k 0, mkpos i 0 i, mkpos (S i) 0 (S i), Plain) : entry) in
  let s := [e KA 0; e KB 1; e KComma 2; e KA 3; e KComma 4; e KA 5; e KComma 6; e KA 7; e KComma 8] in
  match peg2 true (GIntersperseCount 1 (Some 3) (GBoth (GOne KA) (GMaybe (GOne KB))) (GOne KComma)) s with
  | Some (POk (VNat n) rest) => n = 3 /\ length rest = 3
  | _ => False
  end.
Proof. vm_compute. split; reflexivity. Qed.
Print Assumptions C07_spec_example.
