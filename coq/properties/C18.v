(** C18 — Line widening and splitting partition a span into whole source lines.
    A source whose text reads as the unit list [us] (MetricsSpec) and starts at [off];
    [gpos m us off i] is the position it reports for unit boundary i (for a whole document,
    [off = pos_zero], this is the canonical position [cpos]: C18_document). All statements
    hold for LF, CR and CRLF alike: the line ending is a parameter of [m]. *)
From Tephra Require Import MetricsSpec MetricsFacts Source SourceFacts.

Theorem C18_widen :
  forall m, 1 <= tabw m -> forall us, wf_units m us -> forall off name i j,
  i <= j -> j <= length us ->
  widen_to_line (mkspan (gpos m us off i) (gpos m us off j)) (mksource (ctext m us) name m off)
  = Ok (mkspan (gpos m us off (line_start_k us i)) (gpos m us off (line_end_k us j))).
Proof. exact widen_G. Qed.
Print Assumptions C18_widen.

(** ... and these are the nearest line start at or before i and line end at or after j, so the
    widened span is the smallest one with those properties containing the original. *)
Theorem C18_widen_bounds_meaning :
  forall us k, k <= length us ->
  (let b := line_start_k us k in
   b <= k /\ (forall i, b <= i < k -> exists c, nth_error us i = Some (UCh c))
   /\ (0 < b -> nth_error us (b - 1) = Some ULb)) /\
  (let e := line_end_k us k in
   k <= e <= length us /\ (forall i, k <= i < e -> exists c, nth_error us i = Some (UCh c))
   /\ (e < length us -> nth_error us e = Some ULb)).
Proof. intros us k Hk. split; [exact (line_start_k_spec us k Hk)|exact (line_end_k_spec us k Hk)]. Qed.
Print Assumptions C18_widen_bounds_meaning.

(** split_lines yields exactly [pieces]: in order, one per line touched *)
Theorem C18_split :
  forall m, 1 <= tabw m -> forall us, wf_units m us -> forall off name f a j,
  a <= j -> j <= length us -> j - a < f ->
  sl_collect (S f) (split_lines_of (mkspan (gpos m us off a) (gpos m us off j))
                                   (mksource (ctext m us) name m off))
  = Ok (map (span_of m us off) (pieces f us a j)).
Proof. exact sl_collect_G. Qed.
Print Assumptions C18_split.

(** each piece lies within a single line and holds no terminator ... *)
Theorem C18_pieces_within_line :
  forall us f a j x y, a <= j -> j <= length us -> In (x, y) (pieces f us a j) ->
  a <= x /\ x <= y /\ y <= j /\ forall i, x <= i < y -> exists c, nth_error us i = Some (UCh c).
Proof. exact pieces_within_line. Qed.
Print Assumptions C18_pieces_within_line.

(** ... and re-joining their texts with the configured line ending reproduces the span's text *)
Theorem C18_pieces_rejoin :
  forall m us f a j, a <= j -> j <= length us -> j - a < f ->
  ctext m (slice us a j) =
  join (lb_text m) (map (fun xy => ctext m (slice us (fst xy) (snd xy))) (pieces f us a j)).
Proof. exact pieces_join. Qed.
Print Assumptions C18_pieces_rejoin.

(** len() before every next() and after exhaustion counts the pieces still to come:
    L, L-1, ..., 1, 0, 0 — no panic *)
Theorem C18_len :
  forall m, 1 <= tabw m -> forall us, wf_units m us -> forall off name f a j,
  a <= j -> j <= length us -> j - a < f ->
  sl_lens (S f) (split_lines_of (mkspan (gpos m us off a) (gpos m us off j))
                                (mksource (ctext m us) name m off))
  = Ok (rev (seq 1 (length (pieces f us a j))) ++ [0; 0]).
Proof. exact sl_lens_G. Qed.
Print Assumptions C18_len.

(** for a whole document the reported positions are the canonical positions of C19 *)
Theorem C18_document :
  forall m t, wf_text t ->
  src_new t m = mksource (ctext m (units m t)) None m pos_zero /\
  wf_units m (units m t) /\ forall k, gpos m (units m t) pos_zero k = cpos m t k.
Proof.
  intros m t Ht. split; [apply src_new_units|split; [apply wf_units_units, Ht|apply gpos_cpos]].
Qed.
Print Assumptions C18_document.

(** Non-vacuity: "a<CR><LF>b" under CRLF splits into two pieces around the line ending. *)
Theorem C18_example :
  let m := {| le := LE_CrLf; tabw := 4 |} in
  let t := [Ch 1 1 97; Cr; Lf; Ch 1 1 98] in
  units m t = [UCh (Ch 1 1 97); ULb; UCh (Ch 1 1 98)] /\ pieces 4 (units m t) 0 3 = [(0, 1); (2, 3)]
  /\ sl_collect 5 (split_lines_of (mkspan (cpos m t 0) (cpos m t 3)) (src_new t m))
     = Ok [mkspan (mkpos 0 0 0) (mkpos 1 0 1); mkspan (mkpos 3 1 0) (mkpos 4 1 1)].
Proof. cbn. repeat split. Qed.
Print Assumptions C18_example.
