(** C14 — Captured spans and text cover exactly the tokens consumed.
    Proved, for an ARBITRARY wrapped parser, on every text / scanner state / filter / look-ahead
    state: the capture starts at the start of the first deliverable token (filtered tokens before
    it are excluded - also when tokens were consumed before the capture starts), ends where the
    wrapped parser's parse span ends, and is clamped to the empty span there when the parser
    stopped before that token; text returns the bytes of exactly that range and slices inside the
    text. For wrapped parsers of the C06 core fragment that succeed without consuming a token the
    captured span is empty and the text is the empty string.
    For wrapped parsers of the sub-free core fragment ([core0]: the C06 core without sub) the
    statement is exact: the tokens consumed are a prefix x..y of the deliverable stream, the span is
    [start of x, end of y) and the text its bytes; nothing consumed gives the empty span / string
    ([C14_spanned_exact], [C14_text_exact], from the cursor-tracking theorem [C14_cursor_tracking]).
    THE WHOLE C06/C07 FAMILY WITHOUT SUB ([core1], RunMove2): seq_count, end_of_text and every
    repetition / interspersal combinator (nested, nullable or not, with stop parsers, counting
    variants) are tracked too, so the exact statement holds for every wrapped parser the property
    quantifies over ([C14_spanned_exact_family], [C14_text_exact_family]).
    Not covered by a theorem (correspondence + oracle): wrapped parsers containing sub (it moves the
    cursor over filtered tokens at a parse start) or recovering combinators, and the case of an
    exhausted stream. *)
From Tephra Require Import MetricsSpec CLexer LexerFacts Run Peg RunCore RunCapture RunMove RunMove2.


(** the whole family of the property (sub-free): primitives incl. seq_count and end_of_text, sequences,
    choice, options, implications, and every repetition / interspersal combinator *)
Theorem C14_cursor_tracking_family :
  forall m, 1 <= tabw m -> forall t, wf_text t ->
  forall fuel g, core1 g = true -> forall lx ys c st, Inv m t lx ys ->
  match run fuel g lx c st with
  | (ROk _ lx', _) =>
    exists ys' consumed, Inv m t lx' ys' /\ c_filter lx' = c_filter lx
      /\ kept (c_filter lx) ys = consumed ++ kept (c_filter lx) ys' /\ moved lx lx' consumed
  | _ => True
  end.
Proof. exact core1_tracked. Qed.
Print Assumptions C14_cursor_tracking_family.

Theorem C14_spanned_exact_family :
  forall m, 1 <= tabw m -> forall t, wf_text t ->
  forall f a lx ys c st x s sp v lx' st', Inv m t lx ys -> kept (c_filter lx) ys = x :: s ->
  core1 a = true ->
  run (S f) (GSpanned a) lx c st = (ROk (VSpanned sp v) lx', st') ->
  exists ys' consumed, Inv m t lx' ys' /\ x :: s = consumed ++ kept (c_filter lx) ys'
    /\ match consumed with
       | [] => byte (sstart sp) = byte (send sp)
       | y :: _ => sp = mkspan (e_start y) (e_end (last consumed y)) /\ y = x
       end.
Proof. exact spanned_exact1. Qed.
Print Assumptions C14_spanned_exact_family.

Theorem C14_text_exact_family :
  forall m, 1 <= tabw m -> forall t, wf_text t ->
  forall f a lx ys c st x s b e lx' st', Inv m t lx ys -> kept (c_filter lx) ys = x :: s ->
  core1 a = true ->
  run (S f) (GText a) lx c st = (ROk (VText b e) lx', st') ->
  exists ys' consumed, Inv m t lx' ys' /\ x :: s = consumed ++ kept (c_filter lx) ys'
    /\ match consumed with
       | [] => b = e
       | y :: _ => b = byte (e_start y) /\ e = byte (e_end (last consumed y)) /\ y = x
       end.
Proof. exact text_exact1. Qed.
Print Assumptions C14_text_exact_family.

Example C14_family_example :
  core1 (GBoth (GRepeatCountUntil 0 None (GOne KSemi) (GIntersperse 1 (Some 3) (GBoth (GOne KA) (GMaybe (GOne KB))) (GOne KComma)))
               (GBoth (GSeqCount [KC; KC]) GEot)) = true.
Proof. reflexivity. Qed.
Print Assumptions C14_family_example.

(** where a successful parse of the sub-free core leaves the lexer: the consumed tokens are a
    prefix of the deliverable stream; the cursor is at the end of the last one; the parse span
    starts at the first one when the lexer stood at a parse start *)
Theorem C14_cursor_tracking :
  forall m, 1 <= tabw m -> forall t, wf_text t ->
  forall fuel g, core0 g = true -> forall lx ys c st, Inv m t lx ys ->
  match run fuel g lx c st with
  | (ROk _ lx', _) =>
    exists ys' consumed, Inv m t lx' ys' /\ c_filter lx' = c_filter lx
      /\ kept (c_filter lx) ys = consumed ++ kept (c_filter lx) ys' /\ moved lx lx' consumed
  | _ => True
  end.
Proof. exact core0_tracked. Qed.
Print Assumptions C14_cursor_tracking.

Theorem C14_moved_meaning :
  forall lx lx' consumed, moved lx lx' consumed =
  match consumed with
  | [] =>
    (c_ps lx = c_cur lx -> c_ps lx' = c_cur lx' /\ byte (c_cur lx) <= byte (c_cur lx'))
    /\ (c_ps lx <> c_cur lx -> c_cur lx' = c_cur lx /\ c_ps lx' = c_ps lx)
  | x :: _ =>
    c_cur lx' = e_end (last consumed x) /\ byte (c_ps lx') < byte (c_cur lx')
    /\ c_ps lx' = (if pos_eqb (c_ps lx) (c_cur lx) then e_start x else c_ps lx)
  end.
Proof. reflexivity. Qed.
Print Assumptions C14_moved_meaning.

Theorem C14_spanned_exact :
  forall m, 1 <= tabw m -> forall t, wf_text t ->
  forall f a lx ys c st x s sp v lx' st', Inv m t lx ys -> kept (c_filter lx) ys = x :: s ->
  core0 a = true ->
  run (S f) (GSpanned a) lx c st = (ROk (VSpanned sp v) lx', st') ->
  exists ys' consumed, Inv m t lx' ys' /\ x :: s = consumed ++ kept (c_filter lx) ys'
    /\ match consumed with
       | [] => byte (sstart sp) = byte (send sp)
       | y :: _ => sp = mkspan (e_start y) (e_end (last consumed y)) /\ y = x
       end.
Proof. exact spanned_exact. Qed.
Print Assumptions C14_spanned_exact.

Theorem C14_text_exact :
  forall m, 1 <= tabw m -> forall t, wf_text t ->
  forall f a lx ys c st x s b e lx' st', Inv m t lx ys -> kept (c_filter lx) ys = x :: s ->
  core0 a = true ->
  run (S f) (GText a) lx c st = (ROk (VText b e) lx', st') ->
  exists ys' consumed, Inv m t lx' ys' /\ x :: s = consumed ++ kept (c_filter lx) ys'
    /\ match consumed with
       | [] => b = e
       | y :: _ => b = byte (e_start y) /\ e = byte (e_end (last consumed y)) /\ y = x
       end.
Proof. exact text_exact. Qed.
Print Assumptions C14_text_exact.


Theorem C14_spanned_shape :
  forall m, 1 <= tabw m -> forall t, wf_text t ->
  forall f a lx ys c st x s r st', Inv m t lx ys -> kept (c_filter lx) ys = x :: s ->
  run (S f) (GSpanned a) lx c st = (r, st') ->
  exists lx1 ys1, Inv m t lx1 ys1 /\ kept (c_filter lx) ys1 = x :: s /\ c_filter lx1 = c_filter lx
    /\ match run f a lx1 c st with
       | (ROk v lx', st1) => r = ROk (VSpanned (clamp_span (e_start x) (send (c_parse_span lx'))) v) lx' /\ st' = st1
       | (o, st1) => r = o /\ st' = st1
       end.
Proof. exact spanned_shape. Qed.
Print Assumptions C14_spanned_shape.

Theorem C14_text_shape :
  forall m, 1 <= tabw m -> forall t, wf_text t ->
  forall f a lx ys c st x s r st', Inv m t lx ys -> kept (c_filter lx) ys = x :: s ->
  run (S f) (GText a) lx c st = (r, st') ->
  exists lx1 ys1, Inv m t lx1 ys1 /\ kept (c_filter lx) ys1 = x :: s /\ c_filter lx1 = c_filter lx
    /\ match run f a lx1 c st with
       | (ROk v lx', st1) =>
         let e := byte (send (c_parse_span lx')) in
         st' = st1 /\
         (if e <=? blen (c_text lx') then r = ROk (VText (Nat.min (byte (e_start x)) e) e) lx' else r = RPanic)
       | (o, st1) => r = o /\ st' = st1
       end.
Proof. exact text_shape. Qed.
Print Assumptions C14_text_shape.

Theorem C14_clamp :
  forall start e, clamp_span start e = if byte e <? byte start then mkspan e e else mkspan start e.
Proof. reflexivity. Qed.
Print Assumptions C14_clamp.

Theorem C14_spanned_empty_when_nothing_consumed :
  forall m, 1 <= tabw m -> forall t, wf_text t ->
  forall f a lx ys c st x s v, Inv m t lx ys -> kept (c_filter lx) ys = x :: s ->
  gdepth a < f -> peg a (x :: s) = Some (POk v (x :: s)) ->
  exists sp lx', run (S f) (GSpanned a) lx c st = (ROk (VSpanned sp v) lx', st)
    /\ byte (sstart sp) = byte (send sp).
Proof. exact spanned_empty. Qed.
Print Assumptions C14_spanned_empty_when_nothing_consumed.

Theorem C14_text_empty_when_nothing_consumed :
  forall m, 1 <= tabw m -> forall t, wf_text t ->
  forall f a lx ys c st x s v, Inv m t lx ys -> kept (c_filter lx) ys = x :: s ->
  gdepth a < f -> peg a (x :: s) = Some (POk v (x :: s)) ->
  exists b lx', run (S f) (GText a) lx c st = (ROk (VText b b) lx', st).
Proof. exact text_empty. Qed.
Print Assumptions C14_text_empty_when_nothing_consumed.

(** concrete: both(one a, spanned(both(one b, one c))) on "a  b c  " with whitespace dropped: the
    capture is bytes 3..6 (from the start of b to the end of c), excluding the blanks around *)
Example C14_example :
  let t := [Ch 1 1 1; Ch 1 1 6; Ch 1 1 6; Ch 1 1 2; Ch 1 1 6; Ch 1 1 3; Ch 1 1 6; Ch 1 1 6] in
  match c_with_filter (c_new Plain t) (Some (FDrop [KWs])) with
  | Ok lx => match run 10 (GRight (GOne KA) (GSpanned (GBoth (GOne KB) (GOne KC)))) lx (ctx_new true) (mkstore [] []) with
             | (ROk (VSpanned sp _) _, _) => byte (sstart sp) = 3 /\ byte (send sp) = 6
             | _ => False
             end
  | _ => False
  end.
Proof. vm_compute. split; reflexivity. Qed.
Print Assumptions C14_example.

(** the recorded finding C14-sub-tail-filtered, on the model: text(both(one a, sub(empty))) on "a  c" with whitespace
    dropped captures bytes 0..3 ("a  "), although the only token consumed is "a" (bytes 0..1): the sub-parse
    mark skips the blanks eagerly and the capture ends at the cursor. Without the sub the capture is 0..1. *)
Theorem C14_sub_tail_refuted :
  let t := [Ch 1 1 1; Ch 1 1 6; Ch 1 1 6; Ch 1 1 3] in
  match c_with_filter (c_new Plain t) (Some (FDrop [KWs])) with
  | Ok lx =>
    match run 10 (GText (GBoth (GOne KA) (GSub GEmpty))) lx (ctx_new true) (mkstore [] []),
          run 10 (GText (GBoth (GOne KA) GEmpty)) lx (ctx_new true) (mkstore [] []) with
    | (ROk (VText b e) _, _), (ROk (VText b' e') _, _) => b = 0 /\ e = 3 /\ b' = 0 /\ e' = 1
    | _, _ => False
    end
  | _ => False
  end.
Proof. vm_compute. repeat split. Qed.
Print Assumptions C14_sub_tail_refuted.
