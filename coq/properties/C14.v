(** C14 — Captured spans and text cover exactly the tokens consumed.
    Proved, for an ARBITRARY wrapped parser, on every text / scanner state / filter / look-ahead
    state: the capture starts at the start of the first deliverable token (filtered tokens before
    it are excluded - also when tokens were consumed before the capture starts), ends where the
    wrapped parser's parse span ends, and is clamped to the empty span there when the parser
    stopped before that token; text returns the bytes of exactly that range and slices inside the
    text. For wrapped parsers of the C06 core fragment that succeed without consuming a token the
    captured span is empty and the text is the empty string.
    Not covered by a theorem (correspondence + oracle): that the end is the end of the LAST token
    consumed (it is the wrapped parser's cursor), and the case of an exhausted stream. *)
From Tephra Require Import MetricsSpec CLexer LexerFacts Run Peg RunCore RunCapture.

Theorem C14_spanned_shape :
  forall m, 1 <= tabw m -> forall t, wf_text t ->
  forall f a lx ys c st x s r st', Inv m t lx ys -> kept (c_filter lx) ys = x :: s ->
  run (S f) (GSpanned a) lx c st = (r, st') ->
  exists lx1 ys1, Inv m t lx1 ys1 /\ kept (c_filter lx) ys1 = x :: s /\ c_filter lx1 = c_filter lx
    /\ match run f a lx1 c st with
       | (ROk v lx', st1) => r = ROk (VSpanned (clamp_span (e_start x) (send (c_parse_span lx'))) v) lx' /\ st' = st1
       | (o, st1) => r = o /\ st' = st1
       end.
Proof. exact spanned_shape. Qed.
Print Assumptions C14_spanned_shape.

Theorem C14_text_shape :
  forall m, 1 <= tabw m -> forall t, wf_text t ->
  forall f a lx ys c st x s r st', Inv m t lx ys -> kept (c_filter lx) ys = x :: s ->
  run (S f) (GText a) lx c st = (r, st') ->
  exists lx1 ys1, Inv m t lx1 ys1 /\ kept (c_filter lx) ys1 = x :: s /\ c_filter lx1 = c_filter lx
    /\ match run f a lx1 c st with
       | (ROk v lx', st1) =>
         let e := byte (send (c_parse_span lx')) in
         st' = st1 /\
         (if e <=? blen (c_text lx') then r = ROk (VText (Nat.min (byte (e_start x)) e) e) lx' else r = RPanic)
       | (o, st1) => r = o /\ st' = st1
       end.
Proof. exact text_shape. Qed.
Print Assumptions C14_text_shape.

Theorem C14_clamp :
  forall start e, clamp_span start e = if byte e <? byte start then mkspan e e else mkspan start e.
Proof. reflexivity. Qed.
Print Assumptions C14_clamp.

Theorem C14_spanned_empty_when_nothing_consumed :
  forall m, 1 <= tabw m -> forall t, wf_text t ->
  forall f a lx ys c st x s v, Inv m t lx ys -> kept (c_filter lx) ys = x :: s ->
  gdepth a < f -> peg a (x :: s) = Some (POk v (x :: s)) ->
  exists sp lx', run (S f) (GSpanned a) lx c st = (ROk (VSpanned sp v) lx', st)
    /\ byte (sstart sp) = byte (send sp).
Proof. exact spanned_empty. Qed.
Print Assumptions C14_spanned_empty_when_nothing_consumed.

Theorem C14_text_empty_when_nothing_consumed :
  forall m, 1 <= tabw m -> forall t, wf_text t ->
  forall f a lx ys c st x s v, Inv m t lx ys -> kept (c_filter lx) ys = x :: s ->
  gdepth a < f -> peg a (x :: s) = Some (POk v (x :: s)) ->
  exists b lx', run (S f) (GText a) lx c st = (ROk (VText b b) lx', st).
Proof. exact text_empty. Qed.
Print Assumptions C14_text_empty_when_nothing_consumed.

(** concrete: both(one a, spanned(both(one b, one c))) on "a  b c  " with whitespace dropped: the
    capture is bytes 3..6 (from the start of b to the end of c), excluding the blanks around *)
Example C14_example :
  let t := [Ch 1 1 1; Ch 1 1 6; Ch 1 1 6; Ch 1 1 2; Ch 1 1 6; Ch 1 1 3; Ch 1 1 6; Ch 1 1 6] in
  match c_with_filter (c_new Plain t) (Some (FDrop [KWs])) with
  | Ok lx => match run 10 (GRight (GOne KA) (GSpanned (GBoth (GOne KB) (GOne KC)))) lx (ctx_new true) (mkstore [] []) with
             | (ROk (VSpanned sp _) _, _) => byte (sstart sp) = 3 /\ byte (send sp) = 6
             | _ => False
             end
  | _ => False
  end.
Proof. vm_compute. split; reflexivity. Qed.
Print Assumptions C14_example.
