(** C12 — Recovery resumes exactly at the requested token, every time.
    Proved on every text / scanner state / filter / look-ahead state, for an ARBITRARY failing
    wrapped parser (whatever it consumed or looked at) and whatever the store holds from earlier
    invocations: with a sink, recover_default (and recover, and the delayed variants, which are the
    same function) with a recover-before strategy appends exactly one error - the parser's,
    transformed by the context - returns the placeholder, and the returned lexer's next token is
    the first token of the set at or beyond the point where the failed parser started; with no
    such token the result is the recovery error. Without a sink the parser's own error is
    returned and nothing else happens; a success passes through untouched.
    recover-after (flag not set at entry): the search stops in front of the token FOLLOWING the
    first token of the set and the store ends as it started; if that token is the last
    deliverable one the search fails and the flag stays set - [C12_stale_flag_refuted] shows on the
    model what that does to a later invocation (recorded finding C12-recover-after-stale-flag). *)
From Tephra Require Import MetricsSpec CLexer LexerFacts Run Peg RunCore RunRecover RunScope.

Theorem C12_recover_before_resumes_at_first :
  forall m, 1 <= tabw m -> forall t, wf_text t ->
  forall f id ks a lx ys c st e st1, Inv m t lx ys ->
  run f a lx c st = (RErr e, st1) -> has_sink c = true ->
  let st2 := st_log st1 (log st1 ++ [apply_trail (trail c) e]) in
  match find_first ks (kept (c_filter lx) ys) with
  | Some (_, x, rest) =>
    exists lx' ys', run (S f) (GRecoverDef (id, RBefore ks) a) lx c st = (ROk VDflt lx', st2)
      /\ Inv m t lx' ys' /\ c_filter lx' = c_filter lx /\ c_rec lx' = Some (id, RBefore ks)
      /\ kept (c_filter lx) ys' = x :: rest
  | None => run (S f) (GRecoverDef (id, RBefore ks) a) lx c st = (RErr ERecover, st2)
  end.
Proof. exact recover_default_before. Qed.
Print Assumptions C12_recover_before_resumes_at_first.

Theorem C12_find_first_is_first :
  forall ks s, match find_first ks s with
  | Some (p, x, q) => s = p ++ x :: q /\ Forall (fun y => in_kinds ks (e_tok y) = false) p /\ in_kinds ks (e_tok x) = true
  | None => Forall (fun y => in_kinds ks (e_tok y) = false) s
  end.
Proof. exact find_first_spec. Qed.
Print Assumptions C12_find_first_is_first.

Theorem C12_advance_before :
  forall m, 1 <= tabw m -> forall t, wf_text t ->
  forall id ks s fuel lx ys st, Inv m t lx ys -> kept (c_filter lx) ys = s -> length s < fuel ->
  match find_first ks s with
  | Some (_, x, rest) =>
    exists lx' ys', recover_loop fuel (id, RBefore ks) lx st = (Ok (true, lx'), st) /\ Inv m t lx' ys'
      /\ c_filter lx' = c_filter lx /\ c_rec lx' = c_rec lx /\ kept (c_filter lx) ys' = x :: rest
  | None => exists lx', recover_loop fuel (id, RBefore ks) lx st = (Ok (false, lx'), st)
  end.
Proof. exact recover_before_spec. Qed.
Print Assumptions C12_advance_before.

Theorem C12_advance_after :
  forall m, 1 <= tabw m -> forall t, wf_text t ->
  forall id ks s fuel lx ys st, Inv m t lx ys -> kept (c_filter lx) ys = s -> length s < fuel ->
  is_found st id = false ->
  match find_first ks s with
  | Some (_, x, y :: rest) =>
    exists lx' ys', recover_loop fuel (id, RAfter ks) lx st = (Ok (true, lx'), st) /\ Inv m t lx' ys'
      /\ c_filter lx' = c_filter lx /\ c_rec lx' = c_rec lx /\ kept (c_filter lx) ys' = y :: rest
  | Some (_, x, []) => exists lx', recover_loop fuel (id, RAfter ks) lx st = (Ok (false, lx'), set_found st id)
  | None => exists lx', recover_loop fuel (id, RAfter ks) lx st = (Ok (false, lx'), st)
  end.
Proof. exact recover_after_spec. Qed.
Print Assumptions C12_advance_after.

Theorem C12_recover_after_resumes_behind_first :
  forall m, 1 <= tabw m -> forall t, wf_text t ->
  forall f id ks a lx ys c st e st1, Inv m t lx ys ->
  run f a lx c st = (RErr e, st1) -> has_sink c = true -> is_found st1 id = false ->
  let st2 := st_log st1 (log st1 ++ [apply_trail (trail c) e]) in
  match find_first ks (kept (c_filter lx) ys) with
  | Some (_, x, y :: rest) =>
    exists lx' ys', run (S f) (GRecoverDef (id, RAfter ks) a) lx c st = (ROk VDflt lx', st2)
      /\ Inv m t lx' ys' /\ c_filter lx' = c_filter lx /\ kept (c_filter lx) ys' = y :: rest
  | Some (_, x, []) => run (S f) (GRecoverDef (id, RAfter ks) a) lx c st = (RErr ERecover, set_found st2 id)
  | None => run (S f) (GRecoverDef (id, RAfter ks) a) lx c st = (RErr ERecover, st2)
  end.
Proof. exact recover_default_after. Qed.
Print Assumptions C12_recover_after_resumes_behind_first.

(** a subsequent successful stabilising parse clears the recovering state *)
Theorem C12_stabilize_clears_recover_state :
  forall f a lx c st v lx' st',
  run f a lx c st = (ROk v lx', st') -> f <> 0 ->
  run (S f) (GStabilize a) lx c st = (ROk v (set_rec lx' None), st').
Proof. exact stabilize_ok_clears. Qed.
Print Assumptions C12_stabilize_clears_recover_state.

(** ... on whichever attempt of its retry loop the stabilising parse succeeds *)
Theorem C12_stabilize_success_is_stable :
  forall f a lx c st v lx' st',
  run f (GStabilize a) lx c st = (ROk v lx', st') -> c_rec lx' = None.
Proof. exact stabilize_success_stable. Qed.
Print Assumptions C12_stabilize_success_is_stable.

(** the retried success spelled out: the stabilised parser fails, stabilize resumes the recovery at
    [lx1], the parser succeeds there: the result is that success with the recover state cleared *)
Theorem C12_stabilize_retry_clears_recover_state :
  forall f a lx c st e st1 r lx1 st2 v lx' st',
  run (S (S f)) a lx c st = (RErr e, st1) -> c_rec lx = Some r ->
  advance_to_recover lx st1 = (Ok (true, lx1), st2) ->
  run (S (S f)) a lx1 (ctx_unrec c) st2 = (ROk v lx', st') ->
  run (S (S (S f))) (GStabilize a) lx c st = (ROk v (set_rec lx' None), st').
Proof. exact stabilize_retry_ok_clears. Qed.
Print Assumptions C12_stabilize_retry_clears_recover_state.

Theorem C12_no_sink_returns_error :
  forall f r a lx c st e st1,
  run f a lx c st = (RErr e, st1) -> has_sink c = false ->
  run (S f) (GRecoverDef r a) lx c st = (RErr e, st1) /\ run (S f) (GRecover r a) lx c st = (RErr e, st1).
Proof. exact recover_default_no_sink. Qed.
Print Assumptions C12_no_sink_returns_error.

Theorem C12_success_passes :
  forall f r a lx c st v lx' st1,
  run f a lx c st = (ROk v lx', st1) ->
  run (S f) (GRecoverDef r a) lx c st = (ROk v lx', st1) /\ run (S f) (GRecover r a) lx c st = (ROk (VSome v) lx', st1).
Proof. exact recover_default_ok. Qed.
Print Assumptions C12_success_passes.

Theorem C12_delayed_variants_same :
  forall f r a lx c st,
  run (S f) (GRecoverDefDelayed r a) lx c st = run (S f) (GRecoverDef r a) lx c st
  /\ run (S f) (GRecoverDelayed r a) lx c st = run (S f) (GRecover r a) lx c st.
Proof. exact delayed_same. Qed.
Print Assumptions C12_delayed_variants_same.

(** the recorded finding on the model: a recover-after strategy whose token was the LAST
    deliverable token leaves its flag set; the same strategy entered again (flag set) stops at
    the very first token it looks at instead of after the next ';' *)
Theorem C12_stale_flag_refuted :
  let t1 := [Ch 1 1 2; Ch 1 1 14] in                     (* "b;" *)
  let t2 := [Ch 1 1 2; Ch 1 1 2; Ch 1 1 14; Ch 1 1 1] in (* "bb;a" *)
  let r : rref := (5, RAfter [KSemi]) in
  match c_with_filter (c_new Plain t1) None, c_with_filter (c_new Plain t2) None with
  | Ok l1, Ok l2 =>
    match recover_loop 10 r l1 (mkstore [] []) with
    | (Ok (false, _), st) =>
      is_found st 5 = true /\
      match recover_loop 10 r l2 st, recover_loop 10 r l2 (mkstore [] []) with
      | (Ok (true, a), _), (Ok (true, b), _) => byte (c_cursor_pos a) = 0 /\ c_peek_token_span b = Some (mkspan (mkpos 3 0 3) (mkpos 4 0 4))
      | _, _ => False
      end
    | _ => False
    end
  | _, _ => False
  end.
Proof. vm_compute. repeat split. Qed.
Print Assumptions C12_stale_flag_refuted.

(** the second route to the same state (found by a review, not by a generator): the scan that leaves the flag set is
    the one [stabilize] makes, its recovery error swallowed by [maybe]. "c;c;" with whitespace filtered,
    both(recover(one a, after ';'), maybe(stabilize(one b))): the first invocation resumes at the second "c" (byte 2)
    as it should; the second invocation of the same parser objects, started there with the store the first one
    left, "recovers" with zero progress (byte 2 again) although the only ';' ahead is the last token, where a fresh
    parser fails with a recovery error. *)
Theorem C12_stale_flag_via_stabilize_refuted :
  let t := [Ch 1 1 3; Ch 1 1 14; Ch 1 1 3; Ch 1 1 14] in
  let g := GBoth (GRecover (7, RAfter [KSemi]) (GOne KA)) (GMaybe (GStabilize (GOne KB))) in
  match c_with_filter (c_new Plain t) (Some (FDrop [KWs])) with
  | Ok lx =>
    match run 20 g lx (ctx_new true) (mkstore [] []) with
    | (ROk _ lx1, st1) =>
      byte (c_cursor_pos lx1) = 2 /\ is_found st1 7 = true /\
      match run 20 g lx1 (ctx_new true) st1, run 20 g lx1 (ctx_new true) (mkstore [] (log st1)) with
      | (ROk _ lx2, _), (RErr ERecover, _) => byte (c_cursor_pos lx2) = 2
      | _, _ => False
      end
    | _ => False
    end
  | _ => False
  end.
Proof. vm_compute. repeat split. Qed.
Print Assumptions C12_stale_flag_via_stabilize_refuted.
