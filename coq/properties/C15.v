(** C15 — Error-context transforms apply innermost-first, exactly once.
    [run_tree c t] are the observable events (what the sink receives, what send_error hands
    back, what apply_context returns) of running the operation tree [t] from context [c].
    [leaves t] lists the tree's send/apply leaves with the path of operations leading to each;
    [active lk tr path] are the transforms active at the end of a path (innermost first) and
    the lock flag, defined on the path alone. Contexts are modelled as values: see Ctx.v. *)
From Tephra Require Import Ctx CtxFacts.

(** every tree: its events are exactly those of its leaves, in order, each raised in the
    context determined by its own path only (siblings and clones do not interfere) *)
Theorem C15_tree_is_its_leaves :
  forall t c, run_tree c t = flat_map (leaf_events c) (leaves t).
Proof. exact run_tree_leaves. Qed.
Print Assumptions C15_tree_is_its_leaves.

(** an error sent at the end of a path reaches the sink carrying exactly the active transforms
    (or is handed back untransformed when the path removed the sink) *)
Theorem C15_send :
  forall c p n,
  run_tree (ctx_after c p) (TSend n) =
  let tr := fst (active (locked c) (trail c) p) in
  if sink_after (has_sink c) p then [EvSink n (apply_trail tr (EProbe n))] else [EvRet n (EProbe n)].
Proof. exact send_after. Qed.
Print Assumptions C15_send.

Theorem C15_apply :
  forall c p n,
  run_tree (ctx_after c p) (TApply n) =
  [EvApply n (apply_trail (fst (active (locked c) (trail c) p)) (EProbe n))].
Proof. exact apply_after. Qed.
Print Assumptions C15_apply.

(** exactly those transforms, innermost first, each once *)
Theorem C15_exactly_once :
  forall tr n, tags_of (apply_trail tr (EProbe n)) = tr.
Proof. exact trail_exactly_once. Qed.
Print Assumptions C15_exactly_once.

Theorem C15_locked_push_ignored :
  forall c tag t, run_tree (ctx_locked c true) (TPush tag [t]) = run_tree (ctx_locked c true) t.
Proof. exact locked_push_ignored. Qed.
Print Assumptions C15_locked_push_ignored.

Theorem C15_sibling_isolation :
  forall c t1 t2, run_tree c (TFork [t1; t2]) = run_tree c t1 ++ run_tree c t2.
Proof. exact fork_isolation. Qed.
Print Assumptions C15_sibling_isolation.

Theorem C15_example :
  active false [] [SPush 1; SLocked true; SPush 2; SLocked false; SPush 3; SUnrec; SFork] = ([3; 1], false)
  /\ active false [] [SPush 1; SRaw; SPush 2] = ([], true).
Proof. exact active_example. Qed.
Print Assumptions C15_example.
