(** C15 — Error-context transforms apply innermost-first, exactly once.
    [run_tree c t] are the observable events (what the sink receives, what send_error hands
    back, what apply_context returns) of running the operation tree [t] from context [c].
    [leaves t] lists the tree's send/apply leaves with the path of operations leading to each;
    [active lk tr path] are the transforms active at the end of a path (innermost first) and
    the lock flag, defined on the path alone. Contexts are modelled as values: see Ctx.v.
    THAT CONTEXTS ARE VALUES is itself a theorem about a model of context.rs as it is (HCtx.v: shared
    sink cell, local transform cell with parent pointer, lock flag, clones aliasing the cells, the WHOLE
    public API as a register machine that the harness runs against the real Context): on every
    history that does not use take/replace_error_sink or take/replace_local_context the heap machine
    and the value machine produce the same events ([C15_contexts_are_values]); and what those four do
    that a value could not is stated too ([C15_take_sink_is_shared]). *)
From Tephra Require Import Base Ctx CtxFacts HCtx.

(** every tree: its events are exactly those of its leaves, in order, each raised in the
    context determined by its own path only (siblings and clones do not interfere) *)
Theorem C15_tree_is_its_leaves :
  forall t c, run_tree c t = flat_map (leaf_events c) (leaves t).
Proof. exact run_tree_leaves. Qed.
Print Assumptions C15_tree_is_its_leaves.

(** an error sent at the end of a path reaches the sink carrying exactly the active transforms
    (or is handed back untransformed when the path removed the sink) *)
Theorem C15_send :
  forall c p n,
  run_tree (ctx_after c p) (TSend n) =
  let tr := fst (active (locked c) (trail c) p) in
  if sink_after (has_sink c) p then [EvSink n (apply_trail tr (EProbe n))] else [EvRet n (EProbe n)].
Proof. exact send_after. Qed.
Print Assumptions C15_send.

Theorem C15_apply :
  forall c p n,
  run_tree (ctx_after c p) (TApply n) =
  [EvApply n (apply_trail (fst (active (locked c) (trail c) p)) (EProbe n))].
Proof. exact apply_after. Qed.
Print Assumptions C15_apply.

(** exactly those transforms, innermost first, each once *)
Theorem C15_exactly_once :
  forall tr n, tags_of (apply_trail tr (EProbe n)) = tr.
Proof. exact trail_exactly_once. Qed.
Print Assumptions C15_exactly_once.

Theorem C15_locked_push_ignored :
  forall c tag t, run_tree (ctx_locked c true) (TPush tag [t]) = run_tree (ctx_locked c true) t.
Proof. exact locked_push_ignored. Qed.
Print Assumptions C15_locked_push_ignored.

Theorem C15_sibling_isolation :
  forall c t1 t2, run_tree c (TFork [t1; t2]) = run_tree c t1 ++ run_tree c t2.
Proof. exact fork_isolation. Qed.
Print Assumptions C15_sibling_isolation.

Theorem C15_example :
  active false [] [SPush 1; SLocked true; SPush 2; SLocked false; SPush 3; SUnrec; SFork] = ([3; 1], false)
  /\ active false [] [SPush 1; SRaw; SPush 2] = ([], true).
Proof. exact active_example. Qed.
Print Assumptions C15_example.

(** the heap model of context.rs refines to values: no operation other than the four cell-mutating ones
    can be observed through another context *)
Theorem C15_contexts_are_values :
  forall ops, Forall (fun o => pure_op o = true) ops -> hrun hinit ops = vrun vinit ops.
Proof. exact contexts_are_values. Qed.
Print Assumptions C15_contexts_are_values.

(** in the heap model too, transforms are applied own-first then the parents', each once *)
Theorem C15_heap_apply_is_trail :
  forall fuel h l e, h_apply fuel h l e = apply_trail (h_trail fuel h l) e.
Proof. exact h_apply_trail. Qed.
Print Assumptions C15_heap_apply_is_trail.

(** taking the sink through one context removes it for every context that shares the cell *)
Theorem C15_take_sink_is_shared :
  forall s i k j, hs (reg s j) = hs (reg s i) -> hs (reg s i) < length (h_sh (st_heap s)) ->
  let s' := fst (hstep s (HTakeSink i k)) in
  v_sink (abs (st_heap s') (reg s' j)) = None /\ st_ks s' k = nth (hs (reg s i)) (h_sh (st_heap s)) None.
Proof. exact take_sink_is_shared. Qed.
Print Assumptions C15_take_sink_is_shared.

(** concrete: c1 = c0.pushed(5); c2 = c1.pushed(6); take the sink through c0: c2 has lost it; put it back
    through c1: c2 delivers again, with both transforms, inner first *)
Example C15_heap_example :
  hrun hinit [HNew 0 (Some 0); HPushed 0 1 5; HPushed 1 2 6; HSend 2 1; HTakeSink 0 0; HSend 2 2; HReplSink 1 0; HSend 2 3]
  = [HvSink 1 0 (ETagged 5 (ETagged 6 (EProbe 1))); HvRet 2 (EProbe 2); HvSink 3 0 (ETagged 5 (ETagged 6 (EProbe 3)))].
Proof. vm_compute. reflexivity. Qed.
Print Assumptions C15_heap_example.
