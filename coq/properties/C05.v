(** C05 — Lookahead, cloning and sub-lexing are unobservable in the token stream.
    Abstract state of a lexer = (its filter, the entries [ys] of the sequential scan still to come);
    what it will deliver is [kept (c_filter lx) ys]. Look-ahead ([peek], hence the declining cases
    of next_if / next_if_eq and the span queries) and sub-lex marks leave that unchanged; [next]
    delivers its head; [set_filter] re-filters what is still to come. Clones are independent by
    construction in the model (a clone is the same immutable value); that the derived Clone of the
    Rust Lexer is deep is exercised by the correspondence run. Not covered by a theorem (recorded
    finding C05-filter-change-after-eager-skip): entries skipped eagerly under an earlier filter are
    no longer among [ys]. *)
From Tephra Require Import MetricsSpec CLexer LexerFacts LexerOps.

Theorem C05_peek_unobservable :
  forall m, 1 <= tabw m -> forall t, wf_text t -> forall lx ys, Inv m t lx ys ->
  exists lx' ys', c_peek lx = Ok (option_map (fun xr => e_tok (fst xr)) (snd (first_kept (c_filter lx) ys)), lx')
    /\ Inv m t lx' ys' /\ kept (c_filter lx') ys' = kept (c_filter lx) ys
    /\ c_filter lx' = c_filter lx /\ c_rec lx' = c_rec lx.
Proof. exact c_peek_spec. Qed.
Print Assumptions C05_peek_unobservable.

(** the token a peek shows is the one the next advance delivers, with the span the scanner
    matched and the scanner state of the sequential scan *)
Theorem C05_next_delivers_head :
  forall m, 1 <= tabw m -> forall t, wf_text t -> forall lx ys, Inv m t lx ys ->
  let (sk, o) := first_kept (c_filter lx) ys in
  match o with
  | Some (x, rest) =>
    exists lx', c_next lx = Ok (Some (e_tok x), lx') /\ Inv m t lx' rest /\ c_buf lx' = None
      /\ c_filter lx' = c_filter lx /\ c_rec lx' = c_rec lx
      /\ c_ts lx' = e_start x /\ c_cur lx' = e_end x
      /\ c_ps lx' = (if pos_eqb (c_ps lx) (c_cur lx) then e_start x else c_ps lx)
      /\ byte (e_start x) < byte (e_end x)
  | None =>
    exists lx', c_next lx = Ok (None, lx') /\ Inv m t lx' [] /\ c_filter lx' = c_filter lx /\ c_rec lx' = c_rec lx
  end.
Proof. exact c_next_spec. Qed.
Print Assumptions C05_next_delivers_head.

Theorem C05_sublex_unobservable :
  forall m, 1 <= tabw m -> forall t, wf_text t -> forall lx ys, Inv m t lx ys ->
  exists lx' ys', c_start_sublex lx = Ok lx' /\ Inv m t lx' ys'
    /\ kept (c_filter lx') ys' = kept (c_filter lx) ys /\ c_filter lx' = c_filter lx /\ c_rec lx' = c_rec lx.
Proof. exact c_start_sublex_spec. Qed.
Print Assumptions C05_sublex_unobservable.

Theorem C05_set_filter :
  forall m, 1 <= tabw m -> forall t, wf_text t -> forall lx ys f, Inv m t lx ys ->
  exists lx' ys', c_set_filter lx f = Ok (c_filter lx, lx') /\ Inv m t lx' ys'
    /\ c_filter lx' = f /\ kept f ys' = kept f ys /\ c_rec lx' = c_rec lx.
Proof. exact c_set_filter_spec. Qed.
Print Assumptions C05_set_filter.

(** the delivered entries are entries of the ONE sequential scan: same spans, same scanner states *)
Theorem C05_scanner_state_is_sequential :
  forall f ys x, In x (kept f ys) -> In x ys.
Proof. intros f ys x H. unfold kept in H. apply filter_In in H. tauto. Qed.
Print Assumptions C05_scanner_state_is_sequential.

(** the derived operations, on the deliverable stream *)
Theorem C05_next_if :
  forall m, 1 <= tabw m -> forall t, wf_text t ->
  forall lx ys p, Inv m t lx ys ->
  match kept (c_filter lx) ys with
  | x :: s =>
    if p (e_tok x)
    then exists lx' ys', c_next_if lx p = Ok (Some (e_tok x), lx') /\ Inv m t lx' ys'
           /\ c_filter lx' = c_filter lx /\ kept (c_filter lx) ys' = s
    else exists lx' ys', c_next_if lx p = Ok (None, lx') /\ Inv m t lx' ys'
           /\ c_filter lx' = c_filter lx /\ kept (c_filter lx) ys' = x :: s
  | [] => exists lx' ys', c_next_if lx p = Ok (None, lx') /\ Inv m t lx' ys'
            /\ c_filter lx' = c_filter lx /\ kept (c_filter lx) ys' = []
  end.
Proof. exact c_next_if_spec. Qed.
Print Assumptions C05_next_if.

Theorem C05_next_if_eq : forall lx e, c_next_if_eq lx e = c_next_if lx (tok_eqb e).
Proof. reflexivity. Qed.
Print Assumptions C05_next_if_eq.

Theorem C05_advance_to :
  forall m, 1 <= tabw m -> forall t, wf_text t ->
  forall p s fuel lx ys, Inv m t lx ys -> kept (c_filter lx) ys = s -> length s < fuel ->
  match split_first p s with
  | Some (_, x, rest) =>
    exists lx' ys', c_advance_to fuel lx p = Ok (true, lx') /\ Inv m t lx' ys'
      /\ c_filter lx' = c_filter lx /\ kept (c_filter lx) ys' = rest
  | None => exists lx' ys', c_advance_to fuel lx p = Ok (false, lx') /\ Inv m t lx' ys'
      /\ c_filter lx' = c_filter lx /\ kept (c_filter lx) ys' = []
  end.
Proof. exact c_advance_to_spec. Qed.
Print Assumptions C05_advance_to.

Theorem C05_advance_up_to :
  forall m, 1 <= tabw m -> forall t, wf_text t ->
  forall p s fuel lx ys, Inv m t lx ys -> kept (c_filter lx) ys = s -> length s < fuel ->
  match split_first p s with
  | Some (_, x, rest) =>
    exists lx' ys', c_advance_up_to fuel lx p = Ok (true, lx') /\ Inv m t lx' ys'
      /\ c_filter lx' = c_filter lx /\ kept (c_filter lx) ys' = x :: rest
  | None => exists lx' ys', c_advance_up_to fuel lx p = Ok (false, lx') /\ Inv m t lx' ys'
      /\ c_filter lx' = c_filter lx /\ kept (c_filter lx) ys' = []
  end.
Proof. exact c_advance_up_to_spec. Qed.
Print Assumptions C05_advance_up_to.

Theorem C05_split_first_is_first :
  forall p s, match split_first p s with
  | Some (pre, x, q) => s = pre ++ x :: q /\ Forall (fun y => p (e_tok y) = false) pre /\ p (e_tok x) = true
  | None => Forall (fun y => p (e_tok y) = false) s
  end.
Proof. exact split_first_spec. Qed.
Print Assumptions C05_split_first_is_first.

(** the remaining observers of the lexer: with a look-ahead buffered (it is the first deliverable token),
    peek_cursor_pos is its end and peek_parse_span the parse span as it will be after consuming it when
    it starts at the cursor (the present parse span otherwise); without a look-ahead both are None *)
Theorem C05_peek_observers :
  forall m t lx ys b, Inv m t lx ys -> c_buf lx = Some b ->
  exists x s, kept (c_filter lx) ys = x :: s /\ b = buf_of x
    /\ c_peek_cursor_pos lx = Some (e_end x)
    /\ c_peek_parse_span lx = Some (if pos_eqb (e_start x) (c_cur lx) then enclosing (c_ps lx) (e_end x) else c_parse_span lx).
Proof. exact peek_observers. Qed.
Print Assumptions C05_peek_observers.

(** is_empty_with_filter looks ahead without changing what is deliverable, and answers "empty" only
    when nothing is deliverable *)
Theorem C05_is_empty_with_filter :
  forall m, 1 <= tabw m -> forall t, wf_text t -> forall lx ys, Inv m t lx ys ->
  exists b lx' ys', c_is_empty_with_filter lx = Ok (b, lx') /\ Inv m t lx' ys'
    /\ kept (c_filter lx') ys' = kept (c_filter lx) ys /\ c_filter lx' = c_filter lx /\ c_rec lx' = c_rec lx
    /\ (b = true -> kept (c_filter lx) ys = []).
Proof. exact is_empty_with_filter_spec. Qed.
Print Assumptions C05_is_empty_with_filter.

(** the recorded finding, on the model: next; sublex; set_filter(None); next on "a b" delivers B,
    while next; set_filter(None); next delivers the whitespace token *)
Theorem C05_eager_skip_refuted :
  let t := [Ch 1 1 1; Ch 1 1 6; Ch 1 1 2] in
  let run (mark : bool) :=
    match c_with_filter (c_new Plain t) (Some (FDrop [KWs])) with
    | Ok l0 => match c_next l0 with
               | Ok (_, l1) =>
                 match (if mark then c_start_sublex l1 else Ok l1) with
                 | Ok l2 => match c_set_filter l2 None with
                            | Ok (_, l3) => match c_next l3 with Ok (o, _) => o | _ => None end
                            | _ => None
                            end
                 | _ => None
                 end
               | _ => None
               end
    | _ => None
    end in
  run true = Some (mktok KB 0) /\ run false = Some (mktok KWs 0).
Proof. vm_compute. split; reflexivity. Qed.
Print Assumptions C05_eager_skip_refuted.

(** what a sub-lex mark does when a look-ahead is buffered: it re-marks the parse and token starts at the cursor and
    touches nothing else - the filtered tokens in front of the look-ahead are not passed *)
Theorem C05_sublex_with_lookahead_moves_only_the_marks :
  forall lx b, c_buf lx = Some b ->
  c_start_sublex lx = Ok (mklex (c_text lx) (c_met lx) (c_sc lx) (c_filter lx) (c_rec lx) (Some b) (c_cur lx) (c_cur lx) (c_cur lx)).
Proof. exact sublex_with_lookahead. Qed.
Print Assumptions C05_sublex_with_lookahead_moves_only_the_marks.
