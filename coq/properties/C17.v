(** C17 — Span operations behave as interval set algebra.
    [S] is any set of positions in which the byte determines the position (the canonical
    positions of one text: [C17_canonical_positions_chain]). Only statements, closed by
    [exact]; proofs are in theories/SpanFacts.v. *)
From Tephra Require Import Span SpanFacts MetricsSpec MetricsFacts.

(** [Span::enclosing], through which every span of the library is built, orders its two arguments by byte itself *)
Theorem C17_enclosing_orders_its_arguments :
  forall S, Chain S -> forall a b, S a -> S b ->
  let r := enclosing a b in
  byte (sstart r) <= byte (send r)
  /\ ((sstart r = a /\ send r = b) \/ (sstart r = b /\ send r = a))
  /\ enclosing b a = r.
Proof. exact enclosing_spec. Qed.
Print Assumptions C17_enclosing_orders_its_arguments.

Theorem C17_enclose :
  forall S, Chain S -> forall a0 a1 b0 b1, S a0 -> S a1 -> S b0 -> S b1 ->
  byte a0 <= byte a1 -> byte b0 <= byte b1 ->
  let r := enclose (mkspan a0 a1) (mkspan b0 b1) in
  span_ok a0 a1 b0 b1 r /\ byte (sstart r) = Nat.min (byte a0) (byte b0)
  /\ byte (send r) = Nat.max (byte a1) (byte b1).
Proof. exact enclose_spec. Qed.
Print Assumptions C17_enclose.

Theorem C17_intersect :
  forall S, Chain S -> forall a0 a1 b0 b1, S a0 -> S a1 -> S b0 -> S b1 ->
  byte a0 <= byte a1 -> byte b0 <= byte b1 ->
  match intersect (mkspan a0 a1) (mkspan b0 b1) with
  | Some r => Nat.max (byte a0) (byte b0) <= Nat.min (byte a1) (byte b1) /\ span_ok a0 a1 b0 b1 r
              /\ byte (sstart r) = Nat.max (byte a0) (byte b0)
              /\ byte (send r) = Nat.min (byte a1) (byte b1)
  | None => Nat.min (byte a1) (byte b1) < Nat.max (byte a0) (byte b0)
  end.
Proof. exact intersect_spec. Qed.
Print Assumptions C17_intersect.

Theorem C17_union :
  forall S, Chain S -> forall a0 a1 b0 b1, S a0 -> S a1 -> S b0 -> S b1 ->
  byte a0 <= byte a1 -> byte b0 <= byte b1 ->
  if Nat.max (byte a0) (byte b0) <=? Nat.min (byte a1) (byte b1)
  then union (mkspan a0 a1) (mkspan b0 b1) = One (enclose (mkspan a0 a1) (mkspan b0 b1))
  else union (mkspan a0 a1) (mkspan b0 b1) = Two (mkspan a0 a1) (mkspan b0 b1).
Proof. exact union_spec. Qed.
Print Assumptions C17_union.

(** Every piece of [a - b] is made of operand positions, lies inside [a], and does not meet
    the interior of [b]. *)
Theorem C17_minus_pieces :
  forall S, Chain S -> forall a0 a1 b0 b1, S a0 -> S a1 -> S b0 -> S b1 ->
  byte a0 <= byte a1 -> byte b0 <= byte b1 ->
  forall p, In p (few_list (minus (mkspan a0 a1) (mkspan b0 b1))) ->
  span_ok a0 a1 b0 b1 p /\ byte a0 <= byte (sstart p) /\ byte (send p) <= byte a1
  /\ ~ (Nat.max (byte (sstart p)) (byte b0) < Nat.min (byte (send p)) (byte b1)).
Proof. exact minus_pieces. Qed.
Print Assumptions C17_minus_pieces.

(** Every part [x..y] of [a] that lies outside [b] is inside one piece. *)
Theorem C17_minus_covers :
  forall S, Chain S -> forall a0 a1 b0 b1, S a0 -> S a1 -> S b0 -> S b1 ->
  byte a0 <= byte a1 -> byte b0 <= byte b1 ->
  forall x y, byte a0 <= x -> x <= y -> y <= byte a1 ->
  (y <= byte b0 \/ byte b1 <= x) -> (x < y \/ y < byte b0 \/ byte b1 < x) ->
  exists p, In p (few_list (minus (mkspan a0 a1) (mkspan b0 b1)))
            /\ byte (sstart p) <= x /\ y <= byte (send p).
Proof. exact minus_covers. Qed.
Print Assumptions C17_minus_covers.

Theorem C17_predicates :
  forall S, Chain S -> forall a0 a1 b0 b1, S a0 -> S a1 -> S b0 -> S b1 ->
  byte a0 <= byte a1 -> byte b0 <= byte b1 ->
  (forall p, S p -> contains (mkspan a0 a1) p = (byte a0 <=? byte p) && (byte p <=? byte a1))
  /\ intersects (mkspan a0 a1) (mkspan b0 b1)
     = (Nat.max (byte a0) (byte b0) <=? Nat.min (byte a1) (byte b1))
  /\ adjacent (mkspan a0 a1) (mkspan b0 b1) = (byte a0 =? byte b1) || (byte a1 =? byte b0).
Proof. exact predicates_spec. Qed.
Print Assumptions C17_predicates.

(** Non-vacuity: the hypotheses are met by a concrete four-position chain. *)
Theorem C17_nonvacuous :
  exists S a0 a1 b0 b1, Chain S /\ S a0 /\ S a1 /\ S b0 /\ S b1
    /\ byte a0 <= byte a1 /\ byte b0 <= byte b1
    /\ few_list (minus (mkspan a0 a1) (mkspan b0 b1)) = [mkspan a0 b0; mkspan b1 a1].
Proof. exact chain_example. Qed.
Print Assumptions C17_nonvacuous.

(** The canonical positions of any text form a chain, so the theorems above apply to every
    pair of spans whose endpoints are canonical positions of one text. *)
Theorem C17_canonical_positions_chain :
  forall m t, 1 <= tabw m -> wf_text t -> Chain (MetricsSpec.Canon m t).
Proof. exact MetricsFacts.canon_chain. Qed.
Print Assumptions C17_canonical_positions_chain.
