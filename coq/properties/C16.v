(** C16 — Rendered reports show the right lines with aligned, correctly placed marks.
    Theorems about the plain rendering model (theories/Render.v; tied to tephra-error byte for
    byte by the correspondence run):
    - gutter: every line number up to the display's end line prints within the gutter width, so
      number rows and empty-gutter rows are equally wide and the separator stands in one column,
      for every number of digits (the defect repaired by "gutter width by digit count" violated this);
    - source rows: the body of a display shows exactly the line pieces it was given (those are the
      lines of the widened span: C18 [sl_collect_G] / [pieces_join]), once each, in order, verbatim,
      each labelled with its line number; no other cell is a source or label cell;
    - a single-line highlight is marked starting at its start column for its display width, with
      at least one mark (the backslash form for an empty highlight); the start and end marks of a
      multi-line highlight stand at its start and end columns;
    - risers: over ANY sequence of rows the riser column of a multi-line highlight is a block of
      non-bars, then a contiguous block of bars, then blanks; it starts with the row carrying the
      start mark and ends with the row carrying the end mark.
    - colour: the coloured rendering is a second model (theories/RenderColor.v), transcribed from the
      [color_enabled] branches and compared byte for byte with the real escape-coded output; the plain
      rendering denotes exactly the characters of the coloured rendering with its styles removed, one
      fails exactly when the other does, and source characters and line breaks never stand inside a style.
    Not modelled (checked by the harness on the real strings): owned == borrowed. *)
From Tephra Require Import Render RenderFacts RenderColor RenderColorFacts.

Theorem C16_gutter_one_column :
  forall end_line l, l <= end_line ->
  cells_width (gutter_num (gutter_width end_line) l) = cells_width (gutter_empty (gutter_width end_line))
  /\ cells_width (gutter_empty (gutter_width end_line)) = gutter_width end_line + 3.
Proof. exact gutter_aligned. Qed.
Print Assumptions C16_gutter_one_column.

Theorem C16_digits_monotone : forall n n', n <= n' -> digits n <= digits n'.
Proof. exact digits_mono. Qed.
Print Assumptions C16_digits_monotone.

Theorem C16_lines_once_in_order_verbatim :
  forall src pieces hls sts gw cells,
  line_rows src pieces hls sts gw = Ok cells ->
  exists texts, Forall2 (fun sp w => clipped src sp = Ok w) pieces texts
    /\ filter is_src cells = flat_map (fun pw => [ONatR gw (line (sstart (fst pw))); OSrc (stext (snd pw))]) (combine pieces texts).
Proof. exact line_rows_sources. Qed.
Print Assumptions C16_lines_once_in_order_verbatim.

Theorem C16_single_line_mark :
  forall h l extra,
  line (sstart (h_span h)) = l -> line (send (h_span h)) = l ->
  byte (sstart (h_span h)) <> byte (send (h_span h)) ->
  message_row h l extra =
    (if extra then [OS " "] else [])
    ++ [ORep " " (col (sstart (h_span h)));
        ORep (underline_of (h_ty h)) (Nat.max (col (send (h_span h)) - col (sstart (h_span h))) 1);
        OS " "; OHl (h_msg h); ONl]
  /\ 1 <= Nat.max (col (send (h_span h)) - col (sstart (h_span h))) 1.
Proof. exact single_line_mark. Qed.
Print Assumptions C16_single_line_mark.

Theorem C16_empty_highlight_mark :
  forall h l extra,
  line (sstart (h_span h)) = l -> line (send (h_span h)) = l ->
  byte (sstart (h_span h)) = byte (send (h_span h)) ->
  message_row h l extra =
    (if extra then [OS " "] else []) ++ [ORep " " (col (sstart (h_span h))); OS "\"; OS " "; OHl (h_msg h); ONl].
Proof. exact empty_highlight_mark. Qed.
Print Assumptions C16_empty_highlight_mark.

Theorem C16_multi_line_marks :
  forall h extra,
  line (sstart (h_span h)) <> line (send (h_span h)) ->
  message_row h (line (sstart (h_span h))) extra
    = (if extra then [OS "_"] else []) ++ [ORep "_" (col (sstart (h_span h))); OS "^"; ONl]
  /\ message_row h (line (send (h_span h))) extra
    = (if extra then [OS "_"] else [])
      ++ (if 0 <? col (send (h_span h)) then [ORep "_" (col (send (h_span h)) - 1)] else [])
      ++ [OS "^"; OS " "; OHl (h_msg h); ONl].
Proof. exact multi_line_marks. Qed.
Print Assumptions C16_multi_line_marks.

Theorem C16_riser_contiguous :
  forall h rows st, st <> RUnused ->
  exists pre mid post, riser_run h rows st = pre ++ mid ++ post
    /\ Forall (fun c => ~ bar c) pre /\ Forall bar mid /\ Forall blank post
    /\ (st = RStarted -> pre = []) /\ (st = REnded -> pre = [] /\ mid = []).
Proof. exact riser_contiguous. Qed.
Print Assumptions C16_riser_contiguous.

Theorem C16_riser_transitions :
  forall h l a,
  let ls := line (sstart (h_span h)) in let le_ := line (send (h_span h)) in
  (snd (riser h l RWaiting a) = RStarted <-> ls <= l /\ (a = true \/ col (sstart (h_span h)) = 0))
  /\ (snd (riser h l RStarted a) = REnded <-> a = true /\ le_ <= l)
  /\ fst (riser h l RStarted a) = [OS "|"]
  /\ fst (riser h l REnded a) = [OS " "] /\ snd (riser h l REnded a) = REnded
  /\ riser h l RUnused a = ([], RUnused).
Proof. exact riser_transitions. Qed.
Print Assumptions C16_riser_transitions.

(** the plain rendering equals the coloured rendering with escape codes removed: [strip] drops the styles,
    [dens] gives a row of cells its characters; [rmap] applies to a rendering that succeeded and keeps a
    failure as it is, so the two renderings also fail together *)
Theorem C16_plain_is_coloured_without_styles :
  forall src cd,
  rmap (fun cells => dens (strip cells)) (cd_render_c src cd) = rmap dens (cd_render src cd).
Proof. exact colour_strip_plain. Qed.
Print Assumptions C16_plain_is_coloured_without_styles.

Theorem C16_colour_never_styles_source :
  forall src cd cells, cd_render_c src cd = Ok cells ->
  Forall (fun c => match c with CS _ (OSrc _) | CS _ ONl => False | _ => True end) cells.
Proof. exact colour_never_styles_source. Qed.
Print Assumptions C16_colour_never_styles_source.

(** non-vacuity: a coloured report with a two-line highlight really contains styled cells, and stripping them
    gives the characters of the plain report *)
Example C16_colour_example :
  let t := [Ch 1 1 1; Lf; Ch 1 1 2] in
  let src := mksource t None {| le := LE_Lf; tabw := 4 |} (mkpos 0 0 0) in
  let sp := mkspan (mkpos 0 0 0) (mkpos 3 1 1) in
  match sd_new src sp false [mkhl sp 3 MError] with
  | Ok sd =>
    let cd := mkcd 1 MError true [sd] in
    match cd_render_c src cd, cd_render src cd with
    | Ok c, Ok p => existsb (fun x => match x with CS _ _ => true | CP _ => false end) c = true
                    /\ dens (strip c) = dens p /\ 40 <= length (dens p)
    | _, _ => False
    end
  | _ => False
  end.
Proof. vm_compute. repeat split. repeat constructor. Qed.
Print Assumptions C16_colour_example.

(** the powers of ten: the gutter is as wide as the end line's number *)
Example C16_example :
  map gutter_width [0; 9; 10; 11; 99; 100; 101; 999; 1000; 1001] = [1; 1; 2; 2; 2; 3; 3; 3; 4; 4].
Proof. vm_compute. reflexivity. Qed.
Print Assumptions C16_example.
