(** C13 — Parse errors identify the offending token and stay inside the source.
    Proved here, for the primitives that fail on a token (one, pred, any, any_index), for every
    text, scanner state, filter and look-ahead state: the error names the FIRST deliverable token,
    its token span is exactly the span the scanner matched for that token (for any/any_index: the
    looked-at token, not the last consumed one), its parse-so-far span is the parse span at entry
    and ends no later than that token begins, and "nothing found" is reported exactly when nothing
    remains deliverable. That the named spans are canonical positions is C03 (PosOK).
    Also proved: the [seq] leaf (after a matched prefix the error names the first token that does
    not match, with its own span, and the parse-so-far span is the one at entry); the boundary error
    of up_to quotes the end of the first abort token ahead and a parse span ending no later than the
    offending token; the count error quotes the actual count and bounds (C11 [list_result]); the
    spans of bracket errors are those of the tokens the reference matcher names (C10) and are
    canonical (C03).
    end_of_text names the first deliverable token with exactly its span, reports "unrecognised" exactly
    when nothing is deliverable and the scan stops at a rejected character; seq_count never names a
    token: its only error is "unrecognised", only on a scan that does not end cleanly (RunErrors3). *)
From Tephra Require Import MetricsSpec CLexer LexerFacts Run Peg RunCore RunErrors RunErrors2 LexerOps RunList LexerFin RunErrors3 LexerCanon RunPos.

Theorem C13_one_names_first_token :
  forall m, 1 <= tabw m -> forall t, wf_text t ->
  forall f k lx ys c st x s, Inv m t lx ys -> kept (c_filter lx) ys = x :: s ->
  tok_eqb (e_tok x) (tk0 k) = false ->
  run (S f) (GOne k) lx c st =
    (RErr (EUnexpected (c_parse_span lx) (mkspan (e_start x) (e_end x)) (ExTok (tk0 k)) (Some (e_tok x))), st)
  /\ byte (send (c_parse_span lx)) <= byte (e_start x).
Proof. exact one_error. Qed.
Print Assumptions C13_one_names_first_token.

Theorem C13_one_found_iff_deliverable :
  forall m, 1 <= tabw m -> forall t, wf_text t ->
  forall f k lx ys c st es ts ex found, Inv m t lx ys ->
  run (S f) (GOne k) lx c st = (RErr (EUnexpected es ts ex found), st) ->
  match found with
  | Some tk => exists x s, kept (c_filter lx) ys = x :: s /\ tk = e_tok x /\ ts = mkspan (e_start x) (e_end x)
  | None => kept (c_filter lx) ys = []
  end.
Proof. exact one_found_iff. Qed.
Print Assumptions C13_one_found_iff_deliverable.

Theorem C13_pred_names_first_token :
  forall m, 1 <= tabw m -> forall t, wf_text t ->
  forall f p lx ys c st x s, Inv m t lx ys -> kept (c_filter lx) ys = x :: s ->
  peval p (e_tok x) = false ->
  run (S f) (GPred p) lx c st =
    (RErr (EUnexpected (c_parse_span lx) (mkspan (e_start x) (e_end x)) ExOther (Some (e_tok x))), st)
  /\ byte (send (c_parse_span lx)) <= byte (e_start x).
Proof. exact pred_error. Qed.
Print Assumptions C13_pred_names_first_token.

(** the look-ahead leaves: the span is the looked-at token's (the defect repaired by the
    "peeked token span" fix was exactly a violation of this statement) *)
Theorem C13_any_names_looked_at_token :
  forall m, 1 <= tabw m -> forall t, wf_text t ->
  forall f k0 ks lx ys c st x s, Inv m t lx ys -> kept (c_filter lx) ys = x :: s ->
  position (fun k => tok_eqb (e_tok x) (tk0 k)) (k0 :: ks) = None ->
  run (S f) (GAny (k0 :: ks)) lx c st =
    (RErr (EUnexpected (c_parse_span lx) (mkspan (e_start x) (e_end x)) (ExAny (map tk0 (k0 :: ks))) (Some (e_tok x))), st)
  /\ run (S f) (GAnyIndex (k0 :: ks)) lx c st =
    (RErr (EUnexpected (c_parse_span lx) (mkspan (e_start x) (e_end x)) (ExAny (map tk0 (k0 :: ks))) (Some (e_tok x))), st)
  /\ byte (send (c_parse_span lx)) <= byte (e_start x).
Proof. exact any_error. Qed.
Print Assumptions C13_any_names_looked_at_token.

Theorem C13_end_only_when_nothing_remains :
  forall m, 1 <= tabw m -> forall t, wf_text t ->
  forall f k k0 ks lx ys c st, Inv m t lx ys -> kept (c_filter lx) ys = [] ->
  (exists ts, run (S f) (GOne k) lx c st = (RErr (EUnexpected (c_parse_span lx) ts (ExTok (tk0 k)) None), st))
  /\ (exists ts, run (S f) (GAny (k0 :: ks)) lx c st =
        (RErr (EUnexpected (c_parse_span lx) ts (ExAny (map tk0 (k0 :: ks))) None), st)).
Proof.
  intros m Htab t Ht f k k0 ks lx ys c st HI Hk. split.
  - exact (one_end m Htab t Ht f k lx ys c st HI Hk).
  - exact (any_end m Htab t Ht f k0 ks lx ys c st HI Hk).
Qed.
Print Assumptions C13_end_only_when_nothing_remains.

(** the spans an error names start at or after the parse start and at entries of the scan, hence
    inside the text: an entry of the scan lies between the cursor and the end of the text *)
Theorem C13_entry_after_cursor :
  forall m, 1 <= tabw m -> forall t, wf_text t ->
  forall lx ys x, Inv m t lx ys -> In x (kept (c_filter lx) ys) ->
  byte (send (c_parse_span lx)) <= byte (e_start x).
Proof. exact parse_span_before. Qed.
Print Assumptions C13_entry_after_cursor.

Theorem C13_seq_names_first_mismatch :
  forall m, 1 <= tabw m -> forall t, wf_text t ->
  forall f ks lx ys c st pre x s k kr,
  Inv m t lx ys -> kept (c_filter lx) ys = pre ++ x :: s -> matches ks pre = Some (k :: kr) ->
  tok_eqb (e_tok x) (tk0 k) = false ->
  run (S f) (GSeq ks) lx c st
  = (RErr (EUnexpected (c_parse_span lx) (mkspan (e_start x) (e_end x)) (ExTok (tk0 k)) (Some (e_tok x))), st).
Proof. exact seq_error. Qed.
Print Assumptions C13_seq_names_first_mismatch.

Theorem C13_boundary_error_quotes_abort_position :
  forall m, 1 <= tabw m -> forall t, wf_text t ->
  forall f a ab lx c st v lx1 ys1 st1 x s pre y rest,
  run f a lx c st = (ROk v lx1, st1) -> Inv m t lx1 ys1 -> kept (c_filter lx1) ys1 = x :: s ->
  in_kinds ab (e_tok x) = false ->
  split_first (in_kinds ab) (x :: s) = Some (pre, y, rest) ->
  exists es, run (S f) (GUpTo a ab) lx c st = (RErr (EBoundary es (e_end y)), st1)
    /\ byte (send es) <= byte (e_start x).
Proof. exact up_to_boundary_error. Qed.
Print Assumptions C13_boundary_error_quotes_abort_position.

Theorem C13_end_of_text_names_first_token :
  forall m, 1 <= tabw m -> forall t, wf_text t ->
  forall f lx ys c st x s, Inv m t lx ys -> kept (c_filter lx) ys = x :: s ->
  run (S f) GEot lx c st =
    (RErr (EUnexpected (c_parse_span lx) (mkspan (e_start x) (e_end x)) ExEot (Some (e_tok x))), st)
  /\ byte (send (c_parse_span lx)) <= byte (e_start x).
Proof. exact eot_error. Qed.
Print Assumptions C13_end_of_text_names_first_token.

Theorem C13_end_of_text_when_nothing_remains :
  forall m, 1 <= tabw m -> forall t, wf_text t ->
  forall f lx ys c st, Inv m t lx ys -> kept (c_filter lx) ys = [] ->
  run (S f) GEot lx c st = if clean t lx ys then (ROk VUnit lx, st) else (RErr (EUnrecognized (c_parse_span lx)), st).
Proof. exact eot_at_end. Qed.
Print Assumptions C13_end_of_text_when_nothing_remains.

Theorem C13_seq_count_error :
  forall m, 1 <= tabw m -> forall t, wf_text t ->
  forall f ks lx ys c st e st', Inv m t lx ys ->
  run (S f) (GSeqCount ks) lx c st = (RErr e, st') ->
  e = EUnrecognized (c_parse_span lx) /\ clean t lx ys = false /\ st' = st.
Proof. exact seq_count_error. Qed.
Print Assumptions C13_seq_count_error.

(** the first sentence of the property, for the whole model: every span of every returned or reported
    error (under any number of user tags) has canonical ends - positions of the text, on unit boundaries -
    in order; likewise the boundary position *)
Theorem C13_every_error_span_inside_and_ordered :
  forall m, 1 <= tabw m -> forall t, wf_text t ->
  forall fuel g lx c e st', gok m t g -> PosOK m t lx ->
  run fuel g lx c (mkstore [] []) = (RErr e, st') -> err_ok m t e /\ Forall (err_ok m t) (log st').
Proof. exact run_error_positions_canonical. Qed.
Print Assumptions C13_every_error_span_inside_and_ordered.

(** concrete: both(one a, any[b]) on "a  c": the error span is that of "c" (bytes 3..4), the
    parse-so-far span is that of "a" (0..1) *)
Example C13_example :
  let t := [Ch 1 1 1; Ch 1 1 6; Ch 1 1 6; Ch 1 1 3] in
  match c_with_filter (c_new Plain t) (Some (FDrop [KWs])) with
  | Ok lx => match run 10 (GBoth (GOne KA) (GAny [KB])) lx (ctx_new true) (mkstore [] []) with
             | (RErr (EUnexpected es ts _ (Some tk)), _) =>
               byte (sstart es) = 0 /\ byte (send es) = 1 /\ byte (sstart ts) = 3 /\ byte (send ts) = 4 /\ tk = mktok KC 0
             | _ => False
             end
  | _ => False
  end.
Proof. vm_compute. repeat split. Qed.
Print Assumptions C13_example.
