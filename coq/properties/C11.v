(** C11 — Delimited lists parse segment by segment, one error per bad segment.
    Proved here for ARBITRARY item parsers, lexers and contexts (no invariant needed): every way
    out of the list loop either hands its continuation a value list that extends the list it was
    given and respects the upper bound, or is not a success; hence a successful bounded list never
    holds more than [hi] entries, and holds fewer than [lo] entries only with a sink, after
    reporting the count error (with the actual count and the parse span) as its last diagnostic;
    upper bound 0 returns the empty list without touching the lexer.
    Partial: the segment structure itself (one entry per separator-delimited segment, the value or
    the placeholder, one error per bad segment with its span inside the segment, the returned
    lexer's next token) is decided by the correspondence run and the python segment oracle only. *)
From Tephra Require Import CLexer Run RunList.

Theorem C11_loop_exits :
  forall runf n hi ab dflt item probe sepp c vals lx st k,
  exits hi vals k (list_loop runf n hi ab dflt item probe sepp c vals lx st k).
Proof. exact list_loop_exits. Qed.
Print Assumptions C11_loop_exits.

Theorem C11_bounds_and_count_error :
  forall f lo hi a sep ab lx c st, (forall h, hi = Some h -> lo <= h) ->
  list_result lo hi c (run (S f) (GListB lo hi a sep ab) lx c st)
  /\ list_result lo hi c (run (S f) (GListBDef lo hi a sep ab) lx c st).
Proof. exact list_bounded_result. Qed.
Print Assumptions C11_bounds_and_count_error.

(** what [list_result] says, spelled out *)
Theorem C11_list_result_meaning :
  forall lo hi c v lx' st', list_result lo hi c (ROk v lx', st') ->
  exists l, v = VList l /\ (forall h, hi = Some h -> length l <= h)
    /\ (length l < lo -> has_sink c = true /\
          exists st0, st' = st_log st0 (log st0 ++ [apply_trail (trail c) (ECount (c_parse_span lx') (length l) lo hi)])).
Proof. intros lo hi c v lx' st' H. exact H. Qed.
Print Assumptions C11_list_result_meaning.

Theorem C11_unbounded_variants :
  forall f a sep ab lx c st,
  run (S f) (GList a sep ab) lx c st = run (S f) (GListB 0 None a sep ab) lx c st
  /\ run (S f) (GListDef a sep ab) lx c st = run (S f) (GListBDef 0 None a sep ab) lx c st.
Proof. intros. split; reflexivity. Qed.
Print Assumptions C11_unbounded_variants.

Theorem C11_upper_bound_zero :
  forall f lo a sep ab lx c st,
  run (S f) (GListB lo (Some 0) a sep ab) lx c st = (ROk (VList []) lx, st).
Proof. intros. reflexivity. Qed.
Print Assumptions C11_upper_bound_zero.

(** concrete: list_bounded(1, 2, one a, ',', [';']) on "a,a,a;" stops after two entries and
    leaves the rest *)
Example C11_example :
  let t := [Ch 1 1 1; Ch 1 1 13; Ch 1 1 1; Ch 1 1 13; Ch 1 1 1; Ch 1 1 14] in
  match c_with_filter (c_new Plain t) None with
  | Ok lx => match run 40 (GListB 1 (Some 2) (GOne KA) KComma [KSemi]) lx (ctx_new true) (mkstore [] []) with
             | (ROk (VList l) lx', st) => length l = 2 /\ byte (c_cursor_pos lx') = 3 /\ log st = []
             | _ => False
             end
  | _ => False
  end.
Proof. vm_compute. repeat split. Qed.
Print Assumptions C11_example.
