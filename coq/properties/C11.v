(** C11 — Delimited lists parse segment by segment, one error per bad segment.
    Proved here for ARBITRARY item parsers, lexers and contexts (no invariant needed): every way
    out of the list loop either hands its continuation a value list that extends the list it was
    given and respects the upper bound, or is not a success; hence a successful bounded list never
    holds more than [hi] entries, and holds fewer than [lo] entries only with a sink, after
    reporting the count error (with the actual count and the parse span) as its last diagnostic;
    upper bound 0 returns the empty list without touching the lexer.
    On WELL-FORMED input ([wf_list]: the deliverable tokens read  item (sep item)* [sep]  up to an
    abort token or the end, the item parser from the C06 core fragment) the unbounded list
    combinators return exactly the item values, the returned lexer delivers the abort token next
    (or nothing), and nothing is reported, with or without a sink: the stabilize / recover_default /
    up_to wrappers and the trailing-item probe are transparent on that path ([C11_list_ok]).
    Partial: the segment structure on MALFORMED input (one entry per separator-delimited segment, the value or
    the placeholder, one error per bad segment with its span inside the segment, the returned
    lexer's next token) is decided by the correspondence run and the python segment oracle only. *)
From Tephra Require Import MetricsSpec CLexer LexerFacts Run Peg RunCore RunList RunListOk.

Theorem C11_loop_exits :
  forall runf n hi ab dflt item probe sepp c vals lx st k,
  exits hi vals k (list_loop runf n hi ab dflt item probe sepp c vals lx st k).
Proof. exact list_loop_exits. Qed.
Print Assumptions C11_loop_exits.

Theorem C11_bounds_and_count_error :
  forall f lo hi a sep ab lx c st, (forall h, hi = Some h -> lo <= h) ->
  list_result lo hi c (run (S f) (GListB lo hi a sep ab) lx c st)
  /\ list_result lo hi c (run (S f) (GListBDef lo hi a sep ab) lx c st).
Proof. exact list_bounded_result. Qed.
Print Assumptions C11_bounds_and_count_error.

(** what [list_result] says, spelled out *)
Theorem C11_list_result_meaning :
  forall lo hi c v lx' st', list_result lo hi c (ROk v lx', st') ->
  exists l, v = VList l /\ (forall h, hi = Some h -> length l <= h)
    /\ (length l < lo -> has_sink c = true /\
          exists st0, st' = st_log st0 (log st0 ++ [apply_trail (trail c) (ECount (c_parse_span lx') (length l) lo hi)])).
Proof. intros lo hi c v lx' st' H. exact H. Qed.
Print Assumptions C11_list_result_meaning.

Theorem C11_unbounded_variants :
  forall f a sep ab lx c st,
  run (S f) (GList a sep ab) lx c st = run (S f) (GListB 0 None a sep ab) lx c st
  /\ run (S f) (GListDef a sep ab) lx c st = run (S f) (GListBDef 0 None a sep ab) lx c st.
Proof. intros. split; reflexivity. Qed.
Print Assumptions C11_unbounded_variants.

Theorem C11_upper_bound_zero :
  forall f lo a sep ab lx c st,
  run (S f) (GListB lo (Some 0) a sep ab) lx c st = (ROk (VList []) lx, st).
Proof. intros. reflexivity. Qed.
Print Assumptions C11_upper_bound_zero.

(** well-formed input *)
Theorem C11_list_default_on_well_formed_input :
  forall m, 1 <= tabw m -> forall t, wf_text t ->
  forall a sep ab f0 F c lx ys st vs s2,
  F = S (S (S f0)) ->
  in_core a = true -> gdepth a < f0 -> Inv m t lx ys -> c_rec lx = None ->
  wf_list a sep ab (kept (c_filter lx) ys) vs s2 -> length vs < F ->
  exists lx' ys', run (S F) (GListDef a sep ab) lx c st = (ROk (VList vs) lx', st)
    /\ Inv m t lx' ys' /\ c_filter lx' = c_filter lx /\ kept (c_filter lx) ys' = s2.
Proof. exact list_def_ok. Qed.
Print Assumptions C11_list_default_on_well_formed_input.

Theorem C11_list_on_well_formed_input :
  forall m, 1 <= tabw m -> forall t, wf_text t ->
  forall a sep ab f0 F c lx ys st vs s2,
  F = S (S (S f0)) ->
  in_core a = true -> S (gdepth a) < f0 -> Inv m t lx ys -> c_rec lx = None ->
  wf_list (GSomeOf a) sep ab (kept (c_filter lx) ys) vs s2 -> length vs < F ->
  exists lx' ys', run (S F) (GList a sep ab) lx c st = (ROk (VList vs) lx', st)
    /\ Inv m t lx' ys' /\ c_filter lx' = c_filter lx /\ kept (c_filter lx) ys' = s2.
Proof. exact list_ok. Qed.
Print Assumptions C11_list_on_well_formed_input.

(** [wf_list] is satisfiable: "a , a ;" with items one(a), separator ',', abort ';' *)
Example C11_wf_list_example :
  let e k : entry := (mktok k 0, pos_zero, pos_zero, Plain) in
  wf_list (GOne KA) KComma [KSemi] [e KA; e KComma; e KA; e KSemi] [VTok (mktok KA 0); VTok (mktok KA 0)] [e KSemi].
Proof.
  cbv zeta. eapply wl_item; [reflexivity|reflexivity|].
  eapply wa_sep; [reflexivity|reflexivity| |intros y q E; injection E as <- _; discriminate].
  eapply wl_item; [reflexivity|reflexivity|]. apply wa_abort. reflexivity.
Qed.
Print Assumptions C11_wf_list_example.

(** concrete: list_bounded(1, 2, one a, ',', [';']) on "a,a,a;" stops after two entries and
    leaves the rest *)
Example C11_example :
  let t := [Ch 1 1 1; Ch 1 1 13; Ch 1 1 1; Ch 1 1 13; Ch 1 1 1; Ch 1 1 14] in
  match c_with_filter (c_new Plain t) None with
  | Ok lx => match run 40 (GListB 1 (Some 2) (GOne KA) KComma [KSemi]) lx (ctx_new true) (mkstore [] []) with
             | (ROk (VList l) lx', st) => length l = 2 /\ byte (c_cursor_pos lx') = 3 /\ log st = []
             | _ => False
             end
  | _ => False
  end.
Proof. vm_compute. repeat split. Qed.
Print Assumptions C11_example.
