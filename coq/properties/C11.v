(** C11 — Delimited lists parse segment by segment, one error per bad segment.
    Proved here for ARBITRARY item parsers, lexers and contexts (no invariant needed): every way
    out of the list loop either hands its continuation a value list that extends the list it was
    given and respects the upper bound, or is not a success; hence a successful bounded list never
    holds more than [hi] entries, and holds fewer than [lo] entries only with a sink, after
    reporting the count error (with the actual count and the parse span) as its last diagnostic;
    upper bound 0 returns the empty list without touching the lexer.
    On WELL-FORMED input ([wf_list]: the deliverable tokens read  item (sep item)* [sep]  up to an
    abort token or the end, the item parser from the C06 core fragment) the unbounded list
    combinators return exactly the item values, the returned lexer delivers the abort token next
    (or nothing), and nothing is reported, with or without a sink: the stabilize / recover_default /
    up_to wrappers and the trailing-item probe are transparent on that path ([C11_list_ok]).
    On ARBITRARY input with a sink (RunListSeg): [seg_list] is the segment-by-segment reading of a
    token list (good segment: the item's value; bad segment: the placeholder, ONE error, resume at the
    first separator / abort token at or after the segment's start, or swallow the rest when there is
    none; the upper bound stops the list where it stands; an abort token or the end ends it); every
    token list has such a reading; the list combinators return exactly its entries, a lexer delivering
    exactly what it leaves, and a sink log that grew by exactly one error per bad segment plus the
    count error when there are fewer than [lo] entries ([C11_segments_*]).
    WITHOUT a sink: when the reading meets a bad segment (after good ones, the upper bound not reached
    before it), the list returns an error - the first bad segment's - and the store is untouched
    ([C11_no_sink_first_bad_segment]).
    Partial: WHERE in the segment the reported error's span lies is decided by the correspondence run
    and the python segment oracle (the leaf errors' spans are C13's theorems). *)
From Tephra Require Import MetricsSpec CLexer LexerFacts Run Peg RunCore RunRecover RunList RunListOk RunListSeg RunMove RunErrLoc RunListLoc.

Theorem C11_loop_exits :
  forall runf n hi ab dflt item probe sepp c vals lx st k,
  exits hi vals k (list_loop runf n hi ab dflt item probe sepp c vals lx st k).
Proof. exact list_loop_exits. Qed.
Print Assumptions C11_loop_exits.

Theorem C11_bounds_and_count_error :
  forall f lo hi a sep ab lx c st, (forall h, hi = Some h -> lo <= h) ->
  list_result lo hi c (run (S f) (GListB lo hi a sep ab) lx c st)
  /\ list_result lo hi c (run (S f) (GListBDef lo hi a sep ab) lx c st).
Proof. exact list_bounded_result. Qed.
Print Assumptions C11_bounds_and_count_error.

(** what [list_result] says, spelled out *)
Theorem C11_list_result_meaning :
  forall lo hi c v lx' st', list_result lo hi c (ROk v lx', st') ->
  exists l, v = VList l /\ (forall h, hi = Some h -> length l <= h)
    /\ (length l < lo -> has_sink c = true /\
          exists st0, st' = st_log st0 (log st0 ++ [apply_trail (trail c) (ECount (c_parse_span lx') (length l) lo hi)])).
Proof. intros lo hi c v lx' st' H. exact H. Qed.
Print Assumptions C11_list_result_meaning.

Theorem C11_unbounded_variants :
  forall f a sep ab lx c st,
  run (S f) (GList a sep ab) lx c st = run (S f) (GListB 0 None a sep ab) lx c st
  /\ run (S f) (GListDef a sep ab) lx c st = run (S f) (GListBDef 0 None a sep ab) lx c st.
Proof. intros. split; reflexivity. Qed.
Print Assumptions C11_unbounded_variants.

Theorem C11_upper_bound_zero :
  forall f lo a sep ab lx c st,
  run (S f) (GListB lo (Some 0) a sep ab) lx c st = (ROk (VList []) lx, st).
Proof. intros. reflexivity. Qed.
Print Assumptions C11_upper_bound_zero.

(** well-formed input *)
Theorem C11_list_default_on_well_formed_input :
  forall m, 1 <= tabw m -> forall t, wf_text t ->
  forall a sep ab f0 F c lx ys st vs s2,
  F = S (S (S f0)) ->
  in_core a = true -> gdepth a < f0 -> Inv m t lx ys -> c_rec lx = None ->
  wf_list a sep ab (kept (c_filter lx) ys) vs s2 -> length vs < F ->
  exists lx' ys', run (S F) (GListDef a sep ab) lx c st = (ROk (VList vs) lx', st)
    /\ Inv m t lx' ys' /\ c_filter lx' = c_filter lx /\ kept (c_filter lx) ys' = s2.
Proof. exact list_def_ok. Qed.
Print Assumptions C11_list_default_on_well_formed_input.

Theorem C11_list_on_well_formed_input :
  forall m, 1 <= tabw m -> forall t, wf_text t ->
  forall a sep ab f0 F c lx ys st vs s2,
  F = S (S (S f0)) ->
  in_core a = true -> S (gdepth a) < f0 -> Inv m t lx ys -> c_rec lx = None ->
  wf_list (GSomeOf a) sep ab (kept (c_filter lx) ys) vs s2 -> length vs < F ->
  exists lx' ys', run (S F) (GList a sep ab) lx c st = (ROk (VList vs) lx', st)
    /\ Inv m t lx' ys' /\ c_filter lx' = c_filter lx /\ kept (c_filter lx) ys' = s2.
Proof. exact list_ok. Qed.
Print Assumptions C11_list_on_well_formed_input.

(** [wf_list] is satisfiable: "a , a ;" with items one(a), separator ',', abort ';' *)
Example C11_wf_list_example :
  let e k : entry := (mktok k 0, pos_zero, pos_zero, Plain) in
  wf_list (GOne KA) KComma [KSemi] [e KA; e KComma; e KA; e KSemi] [VTok (mktok KA 0); VTok (mktok KA 0)] [e KSemi].
Proof.
  cbv zeta. eapply wl_item; [reflexivity|reflexivity|].
  eapply wa_sep; [reflexivity|reflexivity| |intros y q E; injection E as <- _; discriminate].
  eapply wl_item; [reflexivity|reflexivity|]. apply wa_abort. reflexivity.
Qed.
Print Assumptions C11_wf_list_example.

(** concrete: list_bounded(1, 2, one a, ',', [';']) on "a,a,a;" stops after two entries and
    leaves the rest *)
Example C11_example :
  let t := [Ch 1 1 1; Ch 1 1 13; Ch 1 1 1; Ch 1 1 13; Ch 1 1 1; Ch 1 1 14] in
  match c_with_filter (c_new Plain t) None with
  | Ok lx => match run 40 (GListB 1 (Some 2) (GOne KA) KComma [KSemi]) lx (ctx_new true) (mkstore [] []) with
             | (ROk (VList l) lx', st) => length l = 2 /\ byte (c_cursor_pos lx') = 3 /\ log st = []
             | _ => False
             end
  | _ => False
  end.
Proof. vm_compute. repeat split. Qed.
Print Assumptions C11_example.

(** * Arbitrary input, with a sink: segment by segment *)

Theorem C11_segments_list_bounded_default :
  forall m, 1 <= tabw m -> forall t, wf_text t ->
  forall a sep ab lo hi f0 F c lx ys st vs n s2,
  F = S (S (S f0)) -> hi <> Some 0 -> (forall h, hi = Some h -> lo <= h) ->
  in_core a = true -> (forall x r, in_kinds ab (e_tok x) = true -> peg a (x :: r) = Some PFail) ->
  gdepth a < f0 -> has_sink c = true -> Inv m t lx ys -> c_rec lx = None ->
  seg_list a sep ab VDflt hi 0 (kept (c_filter lx) ys) vs n s2 -> 2 * length (kept (c_filter lx) ys) + 2 < F ->
  exists lx' ys' errs, Inv m t lx' ys' /\ c_filter lx' = c_filter lx /\ kept (c_filter lx) ys' = s2 /\ length errs = n
    /\ run (S F) (GListBDef lo hi a sep ab) lx c st = (ROk (VList vs) lx', list_store c lo hi st errs vs lx').
Proof. exact list_bounded_default_seg. Qed.
Print Assumptions C11_segments_list_bounded_default.

Theorem C11_segments_list_bounded :
  forall m, 1 <= tabw m -> forall t, wf_text t ->
  forall a sep ab lo hi f0 F c lx ys st vs n s2,
  F = S (S (S f0)) -> hi <> Some 0 -> (forall h, hi = Some h -> lo <= h) ->
  in_core a = true -> (forall x r, in_kinds ab (e_tok x) = true -> peg a (x :: r) = Some PFail) ->
  S (gdepth a) < f0 -> has_sink c = true -> Inv m t lx ys -> c_rec lx = None ->
  seg_list (GSomeOf a) sep ab VNone hi 0 (kept (c_filter lx) ys) vs n s2 -> 2 * length (kept (c_filter lx) ys) + 2 < F ->
  exists lx' ys' errs, Inv m t lx' ys' /\ c_filter lx' = c_filter lx /\ kept (c_filter lx) ys' = s2 /\ length errs = n
    /\ run (S F) (GListB lo hi a sep ab) lx c st = (ROk (VList vs) lx', list_store c lo hi st errs vs lx').
Proof. exact list_bounded_seg. Qed.
Print Assumptions C11_segments_list_bounded.

(** list / list_default are the instances lo = 0, hi = None of the bounded combinators *)
Theorem C11_unbounded_are_instances :
  forall f a sep ab lx c st,
  run (S f) (GList a sep ab) lx c st = run (S f) (GListB 0 None a sep ab) lx c st /\
  run (S f) (GListDef a sep ab) lx c st = run (S f) (GListBDef 0 None a sep ab) lx c st.
Proof. intros. split; reflexivity. Qed.
Print Assumptions C11_unbounded_are_instances.

(** never more errors than entries, never more entries than the upper bound *)
Theorem C11_segment_reading_facts :
  forall a sep ab dflt hi cnt s vs n s2, seg_list a sep ab dflt hi cnt s vs n s2 ->
  n <= length vs /\ (forall h, hi = Some h -> cnt < h -> cnt + length vs <= h).
Proof. intros a sep ab dflt hi. exact (proj1 (seg_list_facts a sep ab dflt hi)). Qed.
Print Assumptions C11_segment_reading_facts.

(** every token list has a segment reading: the theorems above apply to every input *)
Theorem C11_segment_reading_exists :
  forall a sep ab dflt hi, in_core a = true ->
  forall s cnt, exists vs k s2, seg_list a sep ab dflt hi cnt s vs k s2.
Proof. intros a sep ab dflt hi Ha s cnt. exact (proj2 (seg_reading_exists a sep ab dflt hi Ha (length s)) s (le_n _) cnt). Qed.
Print Assumptions C11_segment_reading_exists.

(** without a sink the first bad segment's error is returned instead *)
Theorem C11_no_sink_first_bad_segment :
  forall m, 1 <= tabw m -> forall t, wf_text t ->
  forall a sep ab lo hi f0 F c lx ys st,
  F = S (S (S f0)) -> hi <> Some 0 -> (forall h, hi = Some h -> lo <= h) ->
  in_core a = true -> gdepth a < f0 -> has_sink c = false -> Inv m t lx ys -> c_rec lx = None ->
  first_bad a sep ab hi 0 (kept (c_filter lx) ys) -> 2 * length (kept (c_filter lx) ys) + 2 < F ->
  exists e, run (S F) (GListBDef lo hi a sep ab) lx c st = (RErr e, st).
Proof. exact list_bounded_default_first_bad. Qed.
Print Assumptions C11_no_sink_first_bad_segment.

Theorem C11_no_sink_first_bad_segment_list_bounded :
  forall m, 1 <= tabw m -> forall t, wf_text t ->
  forall a sep ab lo hi f0 F c lx ys st,
  F = S (S (S f0)) -> hi <> Some 0 -> (forall h, hi = Some h -> lo <= h) ->
  in_core a = true -> S (gdepth a) < f0 -> has_sink c = false -> Inv m t lx ys -> c_rec lx = None ->
  first_bad (GSomeOf a) sep ab hi 0 (kept (c_filter lx) ys) -> 2 * length (kept (c_filter lx) ys) + 2 < F ->
  exists e, run (S F) (GListB lo hi a sep ab) lx c st = (RErr e, st).
Proof. exact list_bounded_first_bad. Qed.
Print Assumptions C11_no_sink_first_bad_segment_list_bounded.

(** concrete: list_default(one a, ',', [';']) on "a,b b,a;" with a sink: three entries, the middle
    one the placeholder, exactly one error, the lexer in front of ';' *)
Example C11_malformed_example :
  let t := [Ch 1 1 1; Ch 1 1 13; Ch 1 1 2; Ch 1 1 6; Ch 1 1 2; Ch 1 1 13; Ch 1 1 1; Ch 1 1 14] in
  match c_with_filter (c_new Plain t) (Some (FDrop [KWs])) with
  | Ok lx => match run 40 (GListDef (GOne KA) KComma [KSemi]) lx (ctx_new true) (mkstore [] []) with
             | (ROk (VList l) lx', st) =>
               l = [VTok (mktok KA 0); VDflt; VTok (mktok KA 0)] /\ length (log st) = 1 /\ byte (c_cursor_pos lx') = 7
             | _ => False
             end
  | _ => False
  end.
Proof. vm_compute. repeat split. Qed.
Print Assumptions C11_malformed_example.

(** the same input as a segment reading *)
Example C11_seg_list_example :
  let e k : entry := (mktok k 0, pos_zero, pos_zero, Plain) in
  seg_list (GOne KA) KComma [KSemi] VDflt None 0
    [e KA; e KComma; e KB; e KB; e KComma; e KA; e KSemi]
    [VTok (mktok KA 0); VDflt; VTok (mktok KA 0)] 1 [e KSemi].
Proof.
  cbv zeta. eapply sl_good; [reflexivity|reflexivity|reflexivity|].
  eapply sn_sep; [reflexivity|reflexivity|reflexivity|].
  eapply sl_bad; [reflexivity|left; reflexivity|reflexivity|].
  eapply sn_sep; [reflexivity|reflexivity|reflexivity|].
  eapply sl_good; [reflexivity|reflexivity|reflexivity|].
  apply sn_abort; reflexivity.
Qed.
Print Assumptions C11_seg_list_example.

(** * Where the error of a bad segment lies: between the boundaries delimiting the segment, inclusive *)

(** an item of the sub-free core none of whose leaves accepts a boundary token ([nob]: the property's
    "items contain no separator or abort tokens"), run where the first boundary token ahead is [b]: whatever error
    it returns - and the boundary error of up_to around it - carries only spans between the parse start of the
    lexer it was given and the END of [b] *)
Theorem C11_item_error_within_segment :
  forall m, 1 <= tabw m -> forall t, wf_text t ->
  forall B f a lx ys c st e st',
  core0 a = true -> nob B a = true -> Inv m t lx ys ->
  run (S f) (GUpTo a B) lx c st = (RErr e, st') ->
  forall pre b rest, kept (c_filter lx) ys = pre ++ b :: rest -> noB B pre -> isB B b ->
  ewithin (byte (c_ps lx)) (byte (e_end b)) e.
Proof. exact upto_error_within. Qed.
Print Assumptions C11_item_error_within_segment.

(** the list's item wrapper on a bad segment [pre] ended by the separator / abort token [b], with a sink: the placeholder,
    exactly one error appended to the sink log, all of its spans between the segment's parse start and the end of [b],
    and the list stands in front of [b] without recover state *)
Theorem C11_bad_segment_error_between_boundaries :
  forall m, 1 <= tabw m -> forall t, wf_text t ->
  forall a sep ab, in_core a = true -> core0 a = true -> nob (sep :: ab) a = true ->
  forall f0, gdepth a < f0 -> forall c, has_sink c = true ->
  forall dflt lx ys st pre b rest,
  Inv m t lx ys -> c_rec lx = None -> bad a sep ab (kept (c_filter lx) ys) ->
  kept (c_filter lx) ys = pre ++ b :: rest -> noB (sep :: ab) pre -> isB (sep :: ab) b ->
  exists e lx' ys',
    run (S (S (S f0))) (GStabilize (GRecoverWith dflt (list_rref sep ab) (GUpTo a (sep :: ab)))) lx c st
      = (ROk dflt lx', logged st [e])
    /\ Inv m t lx' ys' /\ c_filter lx' = c_filter lx /\ c_rec lx' = None /\ kept (c_filter lx) ys' = b :: rest
    /\ ewithin (byte (c_ps lx)) (byte (e_end b)) e.
Proof. exact bad_segment_error_within. Qed.
Print Assumptions C11_bad_segment_error_between_boundaries.

(** concrete ("a,b b,a;" with whitespace filtered): the one error of the bad middle segment lies between the
    end of the first comma (byte 2) and the end of the second comma (byte 6), and [nob] holds of the item *)
Example C11_error_position_example :
  let t := [Ch 1 1 1; Ch 1 1 13; Ch 1 1 2; Ch 1 1 6; Ch 1 1 2; Ch 1 1 13; Ch 1 1 1; Ch 1 1 14] in
  nob [KComma; KSemi] (GOne KA) = true /\
  match c_with_filter (c_new Plain t) (Some (FDrop [KWs])) with
  | Ok lx => match run 40 (GListDef (GOne KA) KComma [KSemi]) lx (ctx_new true) (mkstore [] []) with
             | (ROk _ _, st) => match log st with [e] => ewithin 2 6 e | _ => False end
             | _ => False
             end
  | _ => False
  end.
Proof. vm_compute. repeat split; repeat constructor. Qed.
Print Assumptions C11_error_position_example.
