(** C02 — Every parse terminates, including under error recovery.
    The interpreter is a total function on fuel; "terminates" = "does not answer RFuel for some
    fuel". Proved: (i) on the C06 core fragment fuel above the nesting depth always suffices;
    (ii) every lexer operation is total on lexers that stand in the scan, within the lexer's own
    fuel (text length + 1) - in particular the recovery scan, for both strategies; (iii) stabilize
    never retries from a cursor it has already tried, gives up at once when the lexer has no
    recover state, and turns a failed recovery scan into the recovery error - for arbitrary wrapped
    parsers (these are the three ways the unrepaired stabilize looped forever).
    (iv) repetitions: the loops of repeat.rs need no more fuel than a measure that every successful
    step strictly decreases (ARBITRARY steps); for item parsers of the C06 core fragment that
    consume at least one token whenever they succeed, intersperse/repeat end within fuel above the
    nesting depth and the number of deliverable tokens; (v) the bracket scan and the recovery scan
    end within the lexer's own fuel (C10, C12 theorems are stated with that fuel).
    Partial: termination of the list loops, of until-variants and of repetitions over non-core
    bodies is NOT proved; it is decided by the supervised correspondence run
    (the real code is run under a watchdog; the model under fuel 80 + 10*len + 10*size). *)
From Tephra Require Import MetricsSpec CLexer LexerFacts Run Peg RunCore RunRecover RunTotal RunLoops RunFuel.

Theorem C02_core_fuel_suffices :
  forall m, 1 <= tabw m -> forall t, wf_text t ->
  forall fuel g, in_core g = true -> gdepth g < fuel ->
  forall lx ys c st, Inv m t lx ys ->
  (exists v lx', run fuel g lx c st = (ROk v lx', st)) \/ (exists e, run fuel g lx c st = (RErr e, st)).
Proof. exact core_total. Qed.
Print Assumptions C02_core_fuel_suffices.

Theorem C02_recovery_scan_terminates :
  forall m, 1 <= tabw m -> forall t, wf_text t ->
  forall lx ys st id ks, Inv m t lx ys ->
  (exists b lx', recover_loop (fuel_of lx) (id, RBefore ks) lx st = (Ok (b, lx'), st))
  /\ (is_found st id = false -> exists b lx' st', recover_loop (fuel_of lx) (id, RAfter ks) lx st = (Ok (b, lx'), st')).
Proof. exact recover_scan_terminates. Qed.
Print Assumptions C02_recovery_scan_terminates.

Theorem C02_stabilize_no_retry_same_cursor :
  forall runf n att a c lx e st lx1 st1 r,
  c_rec lx = Some r -> advance_to_recover lx st = (Ok (true, lx1), st1) ->
  c_cursor_pos lx1 = c_cursor_pos lx ->
  stab_loop runf (S n) (S att) a c lx (RErr e, st) = (RErr e, st1).
Proof. exact stabilize_no_retry_same_cursor. Qed.
Print Assumptions C02_stabilize_no_retry_same_cursor.

Theorem C02_stabilize_gives_up_without_recover_state :
  forall runf n att a c lx e st,
  c_rec lx = None -> stab_loop runf (S n) att a c lx (RErr e, st) = (RErr e, st).
Proof. exact stabilize_gives_up_without_recover_state. Qed.
Print Assumptions C02_stabilize_gives_up_without_recover_state.

Theorem C02_stabilize_fails_when_scan_fails :
  forall runf n att a c lx e st lx1 st1 r,
  c_rec lx = Some r -> advance_to_recover lx st = (Ok (false, lx1), st1) ->
  stab_loop runf (S n) att a c lx (RErr e, st) = (RErr ERecover, st1).
Proof. exact stabilize_fails_when_scan_fails. Qed.
Print Assumptions C02_stabilize_fails_when_scan_fails.

Theorem C02_stabilize_retry_only_after_progress :
  forall runf n att a c lx e st lx1 st1 r,
  c_rec lx = Some r -> advance_to_recover lx st = (Ok (true, lx1), st1) ->
  (att = 0 \/ c_cursor_pos lx1 <> c_cursor_pos lx) ->
  stab_loop runf (S n) att a c lx (RErr e, st)
  = stab_loop runf n (S att) a c lx1 (runf a lx1 (ctx_unrec c) st1).
Proof. exact stabilize_retry. Qed.
Print Assumptions C02_stabilize_retry_only_after_progress.

(** repetitions: fuel above a strictly decreasing measure suffices, for arbitrary steps *)
Theorem C02_loops_need_fuel_above_a_decreasing_measure :
  forall (P : clexer -> nat -> Prop) (step : clexer -> store -> R),
  (forall l j j', P l j -> j <= j' -> P l j') ->
  (forall l j s, P l j ->
     match step l s with
     | (ROk _ l', _) => exists j', j = S j' /\ P l' j'
     | (RFuel, _) => False
     | _ => True
     end) ->
  (forall n hi vals cur st k, P cur k -> k < n -> fst (opt_loop n hi None step vals cur st) <> RFuel)
  /\ (forall n lo vals cur st k (kont : list val -> clexer -> store -> R), P cur k -> k < n ->
       (forall vs l s j, P l j -> j <= k -> fst (kont vs l s) <> RFuel) ->
       fst (mand_loop n lo None step vals cur st kont) <> RFuel).
Proof.
  intros P step Hm Hs. split.
  - exact (opt_loop_fuel P step Hm Hs).
  - exact (mand_loop_fuel P step Hm Hs).
Qed.
Print Assumptions C02_loops_need_fuel_above_a_decreasing_measure.

Theorem C02_repetition_of_nonnullable_core_items_terminates :
  forall m, 1 <= tabw m -> forall t, wf_text t ->
  forall f lo hi a s lx ys c st,
  in_core a = true -> in_core s = true -> nonnull a -> gdepth a < f -> gdepth s < f -> Inv m t lx ys ->
  length (kept (c_filter lx) ys) <= f ->
  fst (run (S f) (GIntersperse lo hi a s) lx c st) <> RFuel.
Proof. exact intersperse_terminates. Qed.
Print Assumptions C02_repetition_of_nonnullable_core_items_terminates.

Theorem C02_nonnull_satisfiable :
  (forall k, nonnull (GOne k)) /\ (forall a b, nonnull a -> nonnull (GBoth a b)).
Proof. split; [exact nonnull_one|exact nonnull_both]. Qed.
Print Assumptions C02_nonnull_satisfiable.

(** concrete: stabilize(one b) on "a" without recover state and with one: both end at once *)
Example C02_example :
  let t := [Ch 1 1 1] in
  match c_with_filter (c_new Plain t) None with
  | Ok lx =>
    fst (run 30 (GStabilize (GOne KB)) lx (ctx_new true) (mkstore [] [])) <> RFuel
    /\ fst (run 30 (GRecoverDef (1, RBefore [KSemi]) (GStabilize (GOne KB))) lx (ctx_new true) (mkstore [] [])) = RErr ERecover
  | _ => False
  end.
Proof. vm_compute. split; [discriminate|reflexivity]. Qed.
Print Assumptions C02_example.
