(** C02 — Every parse terminates, including under error recovery.
    The interpreter is a total function on fuel; "terminates" = "does not answer RFuel for some
    fuel". Proved: (i) on the C06 core fragment fuel above the nesting depth always suffices;
    (ii) every lexer operation is total on lexers that stand in the scan, within the lexer's own
    fuel (text length + 1) - in particular the recovery scan, for both strategies; (iii) stabilize
    never retries from a cursor it has already tried, gives up at once when the lexer has no
    recover state, and turns a failed recovery scan into the recovery error - for arbitrary wrapped
    parsers (these are the three ways the unrepaired stabilize looped forever).
    (iv) repetitions: the loops of repeat.rs need no more fuel than a measure that every successful
    step strictly decreases (ARBITRARY steps); for item parsers of the C06 core fragment that
    consume at least one token whenever they succeed, intersperse/repeat end within fuel above the
    nesting depth and the number of deliverable tokens; (v) the bracket scan and the recovery scan
    end within the lexer's own fuel (C10, C12 theorems are stated with that fuel).
    (vi) THE WHOLE COMBINATOR MODEL ([C02_every_parse_terminates]): for every grammar within the
    documented preconditions whose repetition bodies consume at least one token whenever they
    succeed ([rep_ok]), every lexer standing in the scan, every context (sink or none), store and
    recovery strategy: with fuel at least  nesting depth + bytes left in the text + 3  the
    interpreter does not answer RFuel, and a returned lexer stands no earlier than the one given.
    The measure is the cursor: no lexer operation moves it backwards, a delivery moves it forwards,
    it never passes the end of the text; stabilize retries only after the cursor moved (or once);
    every round of the list loop consumes a separator; the recovery and bracket scans run on the
    lexer's own fuel.
    What the model cannot exhibit: the real scheduler and allocator - the supervised correspondence
    run (real code under a watchdog with a memory limit) observes those
    (the real code is run under a watchdog; the model under fuel 80 + 10*len + 10*size). *)
From Tephra Require Import MetricsSpec CLexer LexerFacts Run Peg RunCore RunRecover RunTotal RunLoops RunFuel RunSafe RunTerm RunMono.

Theorem C02_core_fuel_suffices :
  forall m, 1 <= tabw m -> forall t, wf_text t ->
  forall fuel g, in_core g = true -> gdepth g < fuel ->
  forall lx ys c st, Inv m t lx ys ->
  (exists v lx', run fuel g lx c st = (ROk v lx', st)) \/ (exists e, run fuel g lx c st = (RErr e, st)).
Proof. exact core_total. Qed.
Print Assumptions C02_core_fuel_suffices.

Theorem C02_recovery_scan_terminates :
  forall m, 1 <= tabw m -> forall t, wf_text t ->
  forall lx ys st id ks, Inv m t lx ys ->
  (exists b lx', recover_loop (fuel_of lx) (id, RBefore ks) lx st = (Ok (b, lx'), st))
  /\ (is_found st id = false -> exists b lx' st', recover_loop (fuel_of lx) (id, RAfter ks) lx st = (Ok (b, lx'), st')).
Proof. exact recover_scan_terminates. Qed.
Print Assumptions C02_recovery_scan_terminates.

Theorem C02_stabilize_no_retry_same_cursor :
  forall runf n att a c lx e st lx1 st1 r,
  c_rec lx = Some r -> advance_to_recover lx st = (Ok (true, lx1), st1) ->
  c_cursor_pos lx1 = c_cursor_pos lx ->
  stab_loop runf (S n) (S att) a c lx (RErr e, st) = (RErr e, st1).
Proof. exact stabilize_no_retry_same_cursor. Qed.
Print Assumptions C02_stabilize_no_retry_same_cursor.

Theorem C02_stabilize_gives_up_without_recover_state :
  forall runf n att a c lx e st,
  c_rec lx = None -> stab_loop runf (S n) att a c lx (RErr e, st) = (RErr e, st).
Proof. exact stabilize_gives_up_without_recover_state. Qed.
Print Assumptions C02_stabilize_gives_up_without_recover_state.

Theorem C02_stabilize_fails_when_scan_fails :
  forall runf n att a c lx e st lx1 st1 r,
  c_rec lx = Some r -> advance_to_recover lx st = (Ok (false, lx1), st1) ->
  stab_loop runf (S n) att a c lx (RErr e, st) = (RErr ERecover, st1).
Proof. exact stabilize_fails_when_scan_fails. Qed.
Print Assumptions C02_stabilize_fails_when_scan_fails.

Theorem C02_stabilize_retry_only_after_progress :
  forall runf n att a c lx e st lx1 st1 r,
  c_rec lx = Some r -> advance_to_recover lx st = (Ok (true, lx1), st1) ->
  (att = 0 \/ c_cursor_pos lx1 <> c_cursor_pos lx) ->
  stab_loop runf (S n) att a c lx (RErr e, st)
  = stab_loop runf n (S att) a c lx1 (runf a lx1 (ctx_unrec c) st1).
Proof. exact stabilize_retry. Qed.
Print Assumptions C02_stabilize_retry_only_after_progress.

(** repetitions: fuel above a strictly decreasing measure suffices, for arbitrary steps *)
Theorem C02_loops_need_fuel_above_a_decreasing_measure :
  forall (P : clexer -> nat -> Prop) (step : clexer -> store -> R),
  (forall l j j', P l j -> j <= j' -> P l j') ->
  (forall l j s, P l j ->
     match step l s with
     | (ROk _ l', _) => exists j', j = S j' /\ P l' j'
     | (RFuel, _) => False
     | _ => True
     end) ->
  (forall n hi vals cur st k, P cur k -> k < n -> fst (opt_loop n hi None step vals cur st) <> RFuel)
  /\ (forall n lo vals cur st k (kont : list val -> clexer -> store -> R), P cur k -> k < n ->
       (forall vs l s j, P l j -> j <= k -> fst (kont vs l s) <> RFuel) ->
       fst (mand_loop n lo None step vals cur st kont) <> RFuel).
Proof.
  intros P step Hm Hs. split.
  - exact (opt_loop_fuel P step Hm Hs).
  - exact (mand_loop_fuel P step Hm Hs).
Qed.
Print Assumptions C02_loops_need_fuel_above_a_decreasing_measure.

Theorem C02_repetition_of_nonnullable_core_items_terminates :
  forall m, 1 <= tabw m -> forall t, wf_text t ->
  forall f lo hi a s lx ys c st,
  in_core a = true -> in_core s = true -> nonnull a -> gdepth a < f -> gdepth s < f -> Inv m t lx ys ->
  length (kept (c_filter lx) ys) <= f ->
  fst (run (S f) (GIntersperse lo hi a s) lx c st) <> RFuel.
Proof. exact intersperse_terminates. Qed.
Print Assumptions C02_repetition_of_nonnullable_core_items_terminates.

Theorem C02_nonnull_satisfiable :
  (forall k, nonnull (GOne k)) /\ (forall a b, nonnull a -> nonnull (GBoth a b)).
Proof. split; [exact nonnull_one|exact nonnull_both]. Qed.
Print Assumptions C02_nonnull_satisfiable.

(** every parse terminates: the whole model *)
Theorem C02_every_parse_terminates :
  forall m, 1 <= tabw m -> forall t, wf_text t ->
  forall F g, pre_ok g = true -> rep_ok m t g ->
  forall lx ys c st, Inv m t lx ys -> tdepth g + rem t lx + 3 <= F ->
  match run F g lx c st with
  | (ROk _ lx', _) => exists ys', Inv m t lx' ys' /\ adv lx lx'
  | (RFuel, _) => False
  | _ => True
  end.
Proof. exact run_terminates. Qed.
Print Assumptions C02_every_parse_terminates.

Theorem C02_measure_meaning :
  (forall t l, rem t l = blen t - byte (c_cur l))
  /\ (forall lx lx', adv lx lx' = (c_cur lx' = c_cur lx \/ byte (c_cur lx) < byte (c_cur lx')))
  /\ (forall m t a, progress m t a =
        forall f l ys c st v l' st', Inv m t l ys -> run f a l c st = (ROk v l', st') -> byte (c_cur l) < byte (c_cur l')).
Proof. repeat split; reflexivity. Qed.
Print Assumptions C02_measure_meaning.

(** the cursor never moves backwards, whatever the operation *)
Theorem C02_cursor_monotone :
  forall m, 1 <= tabw m -> forall t, wf_text t ->
  forall lx ys, Inv m t lx ys ->
  (forall o lx', c_next lx = Ok (o, lx') -> adv lx lx' /\ (o <> None -> byte (c_cur lx) < byte (c_cur lx')))
  /\ (forall o lx', c_peek lx = Ok (o, lx') -> adv lx lx')
  /\ (forall fl o lx', c_set_filter lx fl = Ok (o, lx') -> adv lx lx')
  /\ (forall lx', c_start_sublex lx = Ok lx' -> adv lx lx')
  /\ (forall st b lx' st', advance_to_recover lx st = (Ok (b, lx'), st') -> adv lx lx').
Proof.
  intros m Htab t Ht lx ys HI. repeat split.
  - exact (proj1 (next_adv m Htab t Ht lx ys o lx' HI H)).
  - exact (proj2 (next_adv m Htab t Ht lx ys o lx' HI H)).
  - intros o lx' E. exact (peek_adv m Htab t Ht lx ys o lx' HI E).
  - intros fl o lx' E. exact (set_filter_adv m Htab t Ht lx ys fl o lx' HI E).
  - intros lx' E. exact (start_sublex_adv m Htab t Ht lx ys lx' HI E).
  - intros st b lx' st' E. exact (advance_to_recover_adv m Htab t Ht lx ys st b lx' st' HI E).
Qed.
Print Assumptions C02_cursor_monotone.

Theorem C02_progress_satisfiable :
  forall m, 1 <= tabw m -> forall t, wf_text t -> (forall k, progress m t (GOne k)) /\ (forall p, progress m t (GPred p)).
Proof. intros m Htab t Ht. split; [exact (progress_one m Htab t Ht)|exact (progress_pred m Htab t Ht)]. Qed.
Print Assumptions C02_progress_satisfiable.

(** fuel is only a bound: an answer other than RFuel is the answer at every larger fuel, so the
    result of a parse does not depend on how much fuel was given (every grammar, lexer, context,
    store - no hypothesis at all) *)
Theorem C02_answer_independent_of_fuel :
  forall f d g lx c st, fst (run f g lx c st) <> RFuel -> run (f + d) g lx c st = run f g lx c st.
Proof. exact fuel_monotone. Qed.
Print Assumptions C02_answer_independent_of_fuel.

Theorem C02_answer_unique :
  forall f f' g lx c st,
  fst (run f g lx c st) <> RFuel -> fst (run f' g lx c st) <> RFuel -> run f g lx c st = run f' g lx c st.
Proof. exact answer_unique. Qed.
Print Assumptions C02_answer_unique.

(** concrete: stabilize(one b) on "a" without recover state and with one: both end at once *)
Example C02_example :
  let t := [Ch 1 1 1] in
  match c_with_filter (c_new Plain t) None with
  | Ok lx =>
    fst (run 30 (GStabilize (GOne KB)) lx (ctx_new true) (mkstore [] [])) <> RFuel
    /\ fst (run 30 (GRecoverDef (1, RBefore [KSemi]) (GStabilize (GOne KB))) lx (ctx_new true) (mkstore [] [])) = RErr ERecover
  | _ => False
  end.
Proof. vm_compute. split; [discriminate|reflexivity]. Qed.
Print Assumptions C02_example.
