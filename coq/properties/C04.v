(** C04 — Tokens tile the source; a filter only deletes tokens.
    [stream m t st p ys]: scanning text [t] sequentially from scanner state [st] at position [p]
    yields exactly the entries [ys] (token, start, end, scanner state after) and then stops at
    the end of the text or at a character the scanner rejects. [Inv m t lx ys] is the lexer's
    representation invariant: the lexer stands at a point of that scan with [ys] still to come.
    [kept f ys] = [filter] of the entries by the token filter [f]. Scanner = the harness
    scanners of Scanner.v (plain / counting / modal); tab width >= 1; characters of 1..4 bytes. *)
From Tephra Require Import MetricsSpec CLexer LexerFacts.

(** the sequential scan tiles the text: it starts at the scan start, entries are contiguous, each
    entry is what one scan step matched, and it ends only where the scanner yields nothing *)
Theorem C04_stream_tiles :
  forall m t st p ys, stream m t st p ys ->
  match ys with [] => scan st m t p = Ok None | x :: _ => e_start x = p end /\
  (forall i x y, nth_error ys i = Some x -> nth_error ys (S i) = Some y -> e_start y = e_end x) /\
  (forall i x, nth_error ys i = Some x ->
     exists st0, scan st0 m t (e_start x) = Ok (Some (e_tok x, e_end x, e_state x))).
Proof. exact stream_tiles. Qed.
Print Assumptions C04_stream_tiles.

(** a new lexer stands at the start of the sequential scan of the whole text *)
Theorem C04_new_lexer :
  forall m, 1 <= tabw m -> forall t, wf_text t -> forall sc, c_met (c_new sc t) = m ->
  exists ys, Inv m t (c_new sc t) ys.
Proof. exact Inv_new. Qed.
Print Assumptions C04_new_lexer.

(** installing a filter (with_filter / set_filter) keeps the invariant; what is deliverable
    under the new filter is the filter of what was still to come *)
Theorem C04_with_filter :
  forall m, 1 <= tabw m -> forall t, wf_text t -> forall lx ys f, Inv m t lx ys ->
  exists lx' ys', c_with_filter lx f = Ok lx' /\ Inv m t lx' ys' /\ c_filter lx' = f /\ kept f ys' = kept f ys.
Proof. exact c_with_filter_spec. Qed.
Print Assumptions C04_with_filter.

(** draining a lexer yields exactly the entries the filter keeps — the same tokens, with the same
    spans (and scanner-state evolution: they are entries of the one sequential scan) — in order *)
Theorem C04_drain :
  forall m, 1 <= tabw m -> forall t, wf_text t -> forall n lx ys fuel,
  length ys <= n -> Inv m t lx ys -> length ys < fuel ->
  exists lx', c_drain fuel lx = Ok (map out_of (kept (c_filter lx) ys), lx').
Proof. exact c_drain_spec. Qed.
Print Assumptions C04_drain.

Theorem C04_unfiltered_is_everything :
  forall ys, kept None ys = ys.
Proof. exact kept_none. Qed.
Print Assumptions C04_unfiltered_is_everything.

(** after each delivered token the parse span runs from the start of the first delivered token to
    the end of the last *)
Theorem C04_parse_span :
  forall m, 1 <= tabw m -> forall t, wf_text t -> forall lx ys fuel,
  Inv m t lx ys -> S (length ys) < fuel -> c_ps lx = c_cur lx ->
  c_drain3 fuel lx =
  Ok (match kept (c_filter lx) ys with
      | [] => []
      | x1 :: _ => map (fun x => (e_tok x, enclosing (e_start x) (e_end x), enclosing (e_start x1) (e_end x)))
                       (kept (c_filter lx) ys)
      end).
Proof. exact c_drain3_fresh. Qed.
Print Assumptions C04_parse_span.

(** Non-vacuity: "a b" with the whitespace filter, counting scanner: A/1 and B/3 are delivered. *)
Theorem C04_example :
  let t := [Ch 1 1 1; Ch 1 1 6; Ch 1 1 2] in
  match c_with_filter (c_new (Counting 0) t) (Some (FDrop [KWs])) with
  | Ok lx => option_map (fun r => map fst (fst r)) (match c_drain 5 lx with Ok r => Some r | _ => None end)
             = Some [mktok KA 1; mktok KB 3]
  | _ => False
  end.
Proof. vm_compute. reflexivity. Qed.
Print Assumptions C04_example.
