(** C03 — Every reported position is the true line and column of its byte offset.
    [Canonical m t p]: [p] is one of the canonical positions [cpos m t k] of text [t] under the
    metrics [m] (C19: byte = bytes of the first k units, line = number of line endings among
    them, column = display width since the last one, tabs to the next tab stop).
    [PosOK m t lx]: the parse start, token start, cursor and the look-ahead's two positions of
    lexer [lx] are all canonical. Spans reported by the lexer (token_span, parse_span,
    peek_token_span, cursor_pos) are built from exactly these positions, and the combinators
    build every captured / error span from lexer spans. Hypothesis on the scanner: it measures
    token ends with ColumnMetrics::end_position and never ends a token between the CR and LF of a
    CRLF ending — proved here for the harness scanners ([scan_canonical]).
    WHOLE MODEL ([C03_whole_model], RunPos): started on a lexer whose positions are canonical, every
    combinator returns a lexer whose positions are canonical, and every position inside every returned
    value, every returned error and every error sent to the sink is canonical - for every grammar,
    context, store and fuel. *)
From Tephra Require Import MetricsSpec MetricsFacts CLexer LexerFacts LexerCanon LexerFacts Run Peg RunCore RunMove RunBracket RunCanon LexerBuilders RunPos.

(** the scanner maps canonical starts to canonical ends, strictly further on *)
Theorem C03_scanner_canonical :
  forall m, 1 <= tabw m -> forall t, wf_text t -> forall st p tk e st',
  Canonical m t p -> scan st m t p = Ok (Some (tk, e, st')) -> Canonical m t e /\ byte p < byte e.
Proof. exact scan_canonical. Qed.
Print Assumptions C03_scanner_canonical.

(** a new lexer holds canonical positions ... *)
Theorem C03_new :
  forall m, 1 <= tabw m -> forall t sc, c_met (c_new sc t) = m -> PosOK m t (c_new sc t).
Proof. exact c_new_pos. Qed.
Print Assumptions C03_new.

(** ... and every lexer operation preserves that, for every outcome, in any order and number *)
Theorem C03_next :
  forall m, 1 <= tabw m -> forall t, wf_text t -> forall lx o lx',
  PosOK m t lx -> c_next lx = Ok (o, lx') -> PosOK m t lx'.
Proof. exact c_next_pos. Qed.
Print Assumptions C03_next.

Theorem C03_peek :
  forall m, 1 <= tabw m -> forall t, wf_text t -> forall lx o lx',
  PosOK m t lx -> c_peek lx = Ok (o, lx') -> PosOK m t lx'.
Proof. exact c_peek_pos. Qed.
Print Assumptions C03_peek.

Theorem C03_set_filter :
  forall m, 1 <= tabw m -> forall t, wf_text t -> forall lx f old lx',
  PosOK m t lx -> c_set_filter lx f = Ok (old, lx') -> PosOK m t lx'.
Proof. exact c_set_filter_pos. Qed.
Print Assumptions C03_set_filter.

Theorem C03_start_sublex :
  forall m, 1 <= tabw m -> forall t, wf_text t -> forall lx lx',
  PosOK m t lx -> c_start_sublex lx = Ok lx' -> PosOK m t lx'.
Proof. exact c_start_sublex_pos. Qed.
Print Assumptions C03_start_sublex.

Theorem C03_peek_observers_canonical :
  forall m t lx, PosOK m t lx ->
  (forall sp, c_peek_parse_span lx = Some sp -> Canonical m t (sstart sp) /\ Canonical m t (send sp)) /\
  (forall p, c_peek_cursor_pos lx = Some p -> Canonical m t p).
Proof. intros m t lx H. split; [intros sp; exact (peek_parse_span_pos m t lx sp H)|intros p; exact (peek_cursor_pos_pos m t lx p H)]. Qed.
Print Assumptions C03_peek_observers_canonical.

Theorem C03_is_empty_with_filter :
  forall m, 1 <= tabw m -> forall t, wf_text t -> forall lx b lx',
  PosOK m t lx -> c_is_empty_with_filter lx = Ok (b, lx') -> PosOK m t lx'.
Proof. exact c_is_empty_with_filter_pos. Qed.
Print Assumptions C03_is_empty_with_filter.

(** builder order: the metrics builders re-measure every held position under the NEW metrics; every
    position whose byte offset is a character boundary that does not split a line ending of the new
    metrics becomes the canonical position of that offset (any boundary is good for LF and CR) *)
Theorem C03_metrics_builders_remeasure :
  forall m, 1 <= tabw m -> forall t, wf_text t -> forall lx, c_text lx = t ->
  good_offset m t (c_ps lx) -> good_offset m t (c_ts lx) -> good_offset m t (c_cur lx) ->
  (match c_buf lx with None => True | Some b => good_offset m t (pk_start b) /\ good_offset m t (pk_cursor b) end) ->
  exists lx', set_met_remeasure lx m = Ok lx' /\ PosOK m t lx'
    /\ c_filter lx' = c_filter lx /\ c_sc lx' = c_sc lx /\ c_rec lx' = c_rec lx
    /\ byte (c_ps lx') = byte (c_ps lx) /\ byte (c_ts lx') = byte (c_ts lx) /\ byte (c_cur lx') = byte (c_cur lx).
Proof. exact set_met_remeasure_posok. Qed.
Print Assumptions C03_metrics_builders_remeasure.

Theorem C03_builders_are_remeasure :
  forall lx m l n,
  c_with_metrics lx m = set_met_remeasure lx m
  /\ c_with_le lx l = set_met_remeasure lx (Build_metrics l (tabw (c_met lx)))
  /\ c_with_tab lx n = set_met_remeasure lx (Build_metrics (le (c_met lx)) n).
Proof. intros. repeat split; reflexivity. Qed.
Print Assumptions C03_builders_are_remeasure.

Theorem C03_any_boundary_good_for_lf_cr :
  forall m t p pre suf, le m <> LE_CrLf -> t = pre ++ suf -> byte p = blen pre -> good_offset m t p.
Proof. exact good_offset_lf_cr. Qed.
Print Assumptions C03_any_boundary_good_for_lf_cr.

(** what the combinators REPORT: every token a lexer with canonical positions will deliver has
    canonical start and end positions; hence the spans named by the errors of the token leaves,
    the spans captured by spanned around a sub-free core parser, and the spans of every bracket
    error are canonical *)
Theorem C03_deliverable_tokens_canonical :
  forall m, 1 <= tabw m -> forall t, wf_text t ->
  forall lx ys x, Inv m t lx ys -> PosOK m t lx -> In x (kept (c_filter lx) ys) ->
  Canonical m t (e_start x) /\ Canonical m t (e_end x).
Proof. exact deliverable_canonical. Qed.
Print Assumptions C03_deliverable_tokens_canonical.

Theorem C03_leaf_error_spans_canonical :
  forall m, 1 <= tabw m -> forall t, wf_text t ->
  forall lx ys x s, Inv m t lx ys -> PosOK m t lx -> kept (c_filter lx) ys = x :: s ->
  span_canonical m t (mkspan (e_start x) (e_end x)) /\ span_canonical m t (c_parse_span lx).
Proof. exact leaf_error_span_canonical. Qed.
Print Assumptions C03_leaf_error_spans_canonical.

Theorem C03_spanned_span_canonical :
  forall m, 1 <= tabw m -> forall t, wf_text t ->
  forall f a lx ys c st x s sp v lx' st', Inv m t lx ys -> PosOK m t lx ->
  kept (c_filter lx) ys = x :: s -> core0 a = true ->
  run (S f) (GSpanned a) lx c st = (ROk (VSpanned sp v) lx', st') ->
  (byte (sstart sp) = byte (send sp)) \/ span_canonical m t sp.
Proof. exact spanned_span_canonical. Qed.
Print Assumptions C03_spanned_span_canonical.

Theorem C03_bracket_error_spans_canonical :
  forall m, 1 <= tabw m -> forall t, wf_text t ->
  forall os cs ab lx ys e, Inv m t lx ys -> PosOK m t lx ->
  match_nested_brackets lx os cs ab = BErr e ->
  forall sp, In sp (err_spans e) -> span_canonical m t sp.
Proof. exact bracket_error_spans_canonical. Qed.
Print Assumptions C03_bracket_error_spans_canonical.

(** what "canonical" means: the declarative triple of C19 *)
Theorem C03_canonical_meaning :
  forall m t k,
  cpos m t k = mkpos (ubytes m (firstn k (units m t))) (breaks (firstn k (units m t)))
                     (width (tabw m) (last_line (firstn k (units m t)))).
Proof. exact cpos_decl. Qed.
Print Assumptions C03_canonical_meaning.

(** every grammar, context, store, fuel: what comes back carries canonical positions only *)
Theorem C03_whole_model :
  forall m, 1 <= tabw m -> forall t, wf_text t ->
  forall fuel g lx c st, gok m t g -> PosOK m t lx -> log_ok m t st ->
  log_ok m t (snd (run fuel g lx c st)) /\
  match fst (run fuel g lx c st) with
  | ROk v lx' => PosOK m t lx' /\ val_ok m t v
  | RErr e => err_ok m t e
  | _ => True
  end.
Proof. exact run_pos. Qed.
Print Assumptions C03_whole_model.

(** the side condition is discharged for every grammar built from the public combinators *)
Theorem C03_whole_model_public :
  forall m, 1 <= tabw m -> forall t, wf_text t ->
  forall fuel g lx c st, public_g g = true -> PosOK m t lx -> log_ok m t st -> cn m t (run fuel g lx c st).
Proof. exact run_pos_public. Qed.
Print Assumptions C03_whole_model_public.

(** what the three predicates say: every span of a value, every span / position of an error *)
Theorem C03_whole_model_meaning :
  forall m t,
  (forall s, sp_ok m t s <-> (Canonical m t (sstart s) /\ Canonical m t (send s)) /\ byte (sstart s) <= byte (send s)) /\
  (forall s v, val_ok m t (VSpanned s v) <-> sp_ok m t s /\ val_ok m t v) /\
  (forall es ts ex fo, err_ok m t (EUnexpected es ts ex fo) <-> sp_ok m t es /\ sp_ok m t ts) /\
  (forall es p, err_ok m t (EBoundary es p) <-> sp_ok m t es /\ Canonical m t p) /\
  (forall tag e, err_ok m t (ETagged tag e) <-> err_ok m t e).
Proof. intros m t. split; [|split; [|split; [|split]]]; intros; split; intros HH; exact HH. Qed.
Print Assumptions C03_whole_model_meaning.

(** the side condition [gok] (placeholders of the internal recover form carry no foreign spans) holds
    for grammars built from the public combinators, e.g. *)
Example C03_gok_example :
  forall m t, gok m t (GListB 1 (Some 3) (GSpanned (GBracketDef [KLP] (GRecoverDef (1, RBefore [KSemi]) (GText (GRepeat 1 None (GOne KA)))) [KRP] [])) KComma [KSemi]).
Proof. intros m t. cbn. exact I. Qed.
Print Assumptions C03_gok_example.

(** Non-vacuity: "<TAB>a" with whitespace filtered, configured filter-then-tab-width 8: the first
    token is reported at column 8. *)
Theorem C03_example :
  let t := [Tab; Ch 1 1 1] in
  match c_with_filter (c_new Plain t) (Some (FDrop [KWs])) with
  | Ok l0 => match c_with_tab l0 8 with
             | Ok l1 => match c_next l1 with
                        | Ok (Some tk, l2) => c_token_span l2 = mkspan (mkpos 1 0 8) (mkpos 2 0 9)
                        | _ => False
                        end
             | _ => False
             end
  | _ => False
  end.
Proof. vm_compute. reflexivity. Qed.
Print Assumptions C03_example.
