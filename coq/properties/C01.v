(** C01 — Lexing, parsing and error reporting never panic.
    In the model every unwrap / assert / slice / unreachable of the transcribed code is an explicit
    RPanic (Panic), so "never panics" is "never answers Panic". Proved: (i) no lexer operation
    panics on a lexer that stands in the sequential scan, and the lexer it returns stands in the
    scan again - so no sequence of operations panics, from a new lexer on (ii); (iii) the scanner
    never panics on a character boundary (LexerFacts.scan_at_split, used by (i)); (iv) on the C06
    core fragment the interpreter answers a value or an error, never a panic; (v) text capture
    slices inside the text (C14); (vi) the span and source operations are total on canonical
    arguments (C19/C20/C18 theorems).
    (vii) THE WHOLE COMBINATOR MODEL ([C01_no_combinator_panics]): for every grammar built from the
    sixty combinators within the documented argument preconditions ([pre_ok]: non-empty token
    slices for any/any_index, high >= low, non-empty disjoint open/close bracket sets of equal
    length), every lexer standing in the scan (any text, line ending, tab width, scanner state,
    filter, look-ahead, recover state), every context (sink or none) and store, and every fuel:
    the interpreter never answers RPanic, and the lexer a successful parse returns stands in the
    scan again. This covers the list combinator's debug_assert (the item wrapper always leaves a
    separator, an abort token or nothing next, so the separator parser never has to recover), the
    bracket scan's unwraps (a looked-at token always has a span) and text's slice (inside the text).
    Not covered by a theorem: the rendering of errors and lexer states (Display / Debug), which the
    correspondence run exercises under catch_unwind on every returned and collected error and every
    lexer state; panics inside dependencies; stack exhaustion. *)
From Tephra Require Import MetricsSpec MetricsFacts CLexer LexerFacts Run Peg RunCore RunTotal RunBracket RunSafe RunTerm Source SourceFacts Render RenderTotal RenderColor RenderColorFacts.

Theorem C01_lexer_operations_never_panic :
  forall m, 1 <= tabw m -> forall t, wf_text t ->
  forall lx ys f, Inv m t lx ys ->
  (exists o lx' ys', c_next lx = Ok (o, lx') /\ Inv m t lx' ys')
  /\ (exists o lx' ys', c_peek lx = Ok (o, lx') /\ Inv m t lx' ys')
  /\ (exists o lx' ys', c_set_filter lx f = Ok (o, lx') /\ Inv m t lx' ys')
  /\ (exists lx' ys', c_start_sublex lx = Ok lx' /\ Inv m t lx' ys')
  /\ (exists lx' ys', c_with_filter lx f = Ok lx' /\ Inv m t lx' ys').
Proof. exact lexer_ops_total. Qed.
Print Assumptions C01_lexer_operations_never_panic.

Theorem C01_new_lexer_in_scan :
  forall m, 1 <= tabw m -> forall t, wf_text t ->
  forall sc, c_met (c_new sc t) = m -> exists ys, Inv m t (c_new sc t) ys.
Proof. exact new_lexer_in_scan. Qed.
Print Assumptions C01_new_lexer_in_scan.

Theorem C01_scanner_never_panics :
  forall m, 1 <= tabw m -> forall t, wf_text t ->
  forall st p pre suf, at_split t p pre suf ->
  (scan st m t p = Ok None) \/
  (exists tk e st' chars rest, scan st m t p = Ok (Some (tk, e, st')) /\ suf = chars ++ rest
     /\ 1 <= length chars /\ at_split t e (pre ++ chars) rest /\ end_scan m chars p = Ok e).
Proof. exact scan_at_split. Qed.
Print Assumptions C01_scanner_never_panics.

Theorem C01_core_never_panics :
  forall m, 1 <= tabw m -> forall t, wf_text t ->
  forall fuel g, in_core g = true -> gdepth g < fuel ->
  forall lx ys c st, Inv m t lx ys ->
  (exists v lx', run fuel g lx c st = (ROk v lx', st)) \/ (exists e, run fuel g lx c st = (RErr e, st)).
Proof. exact core_total. Qed.
Print Assumptions C01_core_never_panics.

Theorem C01_no_combinator_panics :
  forall m, 1 <= tabw m -> forall t, wf_text t ->
  forall fuel g, pre_ok g = true -> forall lx ys c st, Inv m t lx ys ->
  match run fuel g lx c st with
  | (ROk _ lx', _) => exists ys', Inv m t lx' ys'
  | (RPanic, _) => False
  | _ => True
  end.
Proof. exact run_safe. Qed.
Print Assumptions C01_no_combinator_panics.

(** from Lexer::new(..).with_filter(..): any parser within the preconditions, any text *)
Theorem C01_from_a_new_lexer :
  forall m, 1 <= tabw m -> forall t, wf_text t ->
  forall sc fl lx0, c_met (c_new sc t) = m -> c_with_filter (c_new sc t) fl = Ok lx0 ->
  forall fuel g c st, pre_ok g = true -> fst (run fuel g lx0 c st) <> RPanic.
Proof.
  intros m Htab t Ht sc fl lx0 Hm Hw fuel g c st Hg.
  destruct (Inv_new m Htab t Ht sc Hm) as [ys HI].
  destruct (c_with_filter_spec m Htab t Ht _ ys fl HI) as (l1 & y1 & E1 & HI1 & _).
  rewrite Hw in E1. injection E1 as <-.
  pose proof (run_safe m Htab t Ht fuel g Hg lx0 y1 c st HI1) as H.
  destruct (run fuel g lx0 c st) as [[v l|e| |] s]; cbn [fst]; try discriminate. contradiction.
Qed.
Print Assumptions C01_from_a_new_lexer.

(** "returns either a success or a parse error": with enough fuel (nesting depth + bytes left + 3)
    the answer is a value or an error - neither a panic nor an exhausted fuel *)
Theorem C01_success_or_parse_error :
  forall m, 1 <= tabw m -> forall t, wf_text t ->
  forall F g, pre_ok g = true -> rep_ok m t g ->
  forall lx ys c st, Inv m t lx ys -> tdepth g + rem t lx + 3 <= F ->
  (exists v lx' st', run F g lx c st = (ROk v lx', st')) \/ (exists e st', run F g lx c st = (RErr e, st')).
Proof.
  intros m Htab t Ht F g Hp Hr lx ys c st HI HF.
  pose proof (run_safe m Htab t Ht F g Hp lx ys c st HI) as Hs.
  pose proof (run_terminates m Htab t Ht F g Hp Hr lx ys c st HI HF) as Ht'.
  destruct (run F g lx c st) as [[v l|e| |] s]; cbn [safe tm] in Hs, Ht'; try contradiction.
  - left. exists v, l, s. reflexivity.
  - right. exists e, s. reflexivity.
Qed.
Print Assumptions C01_success_or_parse_error.

(** the preconditions: exactly the documented ones *)
Theorem C01_preconditions_meaning :
  (forall ks, pre_ok (GAny ks) = match ks with [] => false | _ => true end)
  /\ (forall lo hi a, pre_ok (GRepeat lo hi a) = (match hi with Some h => lo <=? h | None => true end) && pre_ok a)
  /\ (forall os a cs ab, pre_ok (GBracket os a cs ab) = bracket_pre os cs && pre_ok a)
  /\ (forall os cs, bracket_pre os cs =
        negb ((match os with [] => true | _ => false end) || (match cs with [] => true | _ => false end)
              || negb (length os =? length cs) || negb (disjoint_kinds os cs))).
Proof. repeat split; reflexivity. Qed.
Print Assumptions C01_preconditions_meaning.

(** the documented preconditions are what the model's explicit panics guard: e.g. an empty token
    slice for any, high < low for a bounded list *)
Example C01_example :
  let t := [Ch 1 1 1] in
  match c_with_filter (c_new Plain t) None with
  | Ok lx =>
    fst (run 10 (GAny []) lx (ctx_new true) (mkstore [] [])) = RPanic
    /\ fst (run 10 (GListB 3 (Some 2) (GOne KA) KComma []) lx (ctx_new true) (mkstore [] [])) = RPanic
    /\ fst (run 10 (GAny [KB]) lx (ctx_new true) (mkstore [] [])) <> RPanic
  | _ => False
  end.
Proof. vm_compute. repeat split; discriminate. Qed.
Print Assumptions C01_example.

(** formatting: displaying any canonical span of any source (root text or window) with any highlights never
    fails in the rendering model - widening to lines, collecting the pieces, clipping each, laying out rows *)
Theorem C01_rendering_total :
  forall m, 1 <= tabw m -> forall us, wf_units m us -> forall off name i j named hls,
  i <= j -> j <= length us ->
  exists sd, sd_new (mksource (ctext m us) name m off) (mkspan (gpos m us off i) (gpos m us off j)) named hls = Ok sd
    /\ exists cells, sd_render (mksource (ctext m us) name m off) sd = Ok cells.
Proof. exact render_total. Qed.
Print Assumptions C01_rendering_total.

Theorem C01_report_rendering_total :
  forall m, 1 <= tabw m -> forall us, wf_units m us -> forall off name msg ty code sds,
  Forall (fun sd => exists i j named hls, i <= j /\ j <= length us /\
            sd_new (mksource (ctext m us) name m off) (mkspan (gpos m us off i) (gpos m us off j)) named hls = Ok sd) sds ->
  exists cells, cd_render (mksource (ctext m us) name m off) (mkcd msg ty code sds) = Ok cells.
Proof. exact cd_render_total. Qed.
Print Assumptions C01_report_rendering_total.

(** the colour path of the same report (RenderColor.v: the [color_enabled] branches) never fails either *)
Theorem C01_coloured_report_rendering_total :
  forall m, 1 <= tabw m -> forall us, wf_units m us -> forall off name msg ty code sds,
  Forall (fun sd => exists i j named hls, i <= j /\ j <= length us /\
            sd_new (mksource (ctext m us) name m off) (mkspan (gpos m us off i) (gpos m us off j)) named hls = Ok sd) sds ->
  exists cells, cd_render_c (mksource (ctext m us) name m off) (mkcd msg ty code sds) = Ok cells.
Proof. exact cd_render_c_total. Qed.
Print Assumptions C01_coloured_report_rendering_total.
