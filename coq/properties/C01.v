(** C01 — Lexing, parsing and error reporting never panic.
    In the model every unwrap / assert / slice / unreachable of the transcribed code is an explicit
    RPanic (Panic), so "never panics" is "never answers Panic". Proved: (i) no lexer operation
    panics on a lexer that stands in the sequential scan, and the lexer it returns stands in the
    scan again - so no sequence of operations panics, from a new lexer on (ii); (iii) the scanner
    never panics on a character boundary (LexerFacts.scan_at_split, used by (i)); (iv) on the C06
    core fragment the interpreter answers a value or an error, never a panic; (v) text capture
    slices inside the text (C14); (vi) the span and source operations are total on canonical
    arguments (C19/C20/C18 theorems).
    Partial: for the recovering, repeating, bracket and list combinators and for the rendering,
    absence of RPanic is decided by the correspondence run (the real code under catch_unwind,
    formatting every returned and collected error and every lexer state with Display and Debug),
    not by a theorem. *)
From Tephra Require Import MetricsSpec CLexer LexerFacts Run Peg RunCore RunTotal.

Theorem C01_lexer_operations_never_panic :
  forall m, 1 <= tabw m -> forall t, wf_text t ->
  forall lx ys f, Inv m t lx ys ->
  (exists o lx' ys', c_next lx = Ok (o, lx') /\ Inv m t lx' ys')
  /\ (exists o lx' ys', c_peek lx = Ok (o, lx') /\ Inv m t lx' ys')
  /\ (exists o lx' ys', c_set_filter lx f = Ok (o, lx') /\ Inv m t lx' ys')
  /\ (exists lx' ys', c_start_sublex lx = Ok lx' /\ Inv m t lx' ys')
  /\ (exists lx' ys', c_with_filter lx f = Ok lx' /\ Inv m t lx' ys').
Proof. exact lexer_ops_total. Qed.
Print Assumptions C01_lexer_operations_never_panic.

Theorem C01_new_lexer_in_scan :
  forall m, 1 <= tabw m -> forall t, wf_text t ->
  forall sc, c_met (c_new sc t) = m -> exists ys, Inv m t (c_new sc t) ys.
Proof. exact new_lexer_in_scan. Qed.
Print Assumptions C01_new_lexer_in_scan.

Theorem C01_scanner_never_panics :
  forall m, 1 <= tabw m -> forall t, wf_text t ->
  forall st p pre suf, at_split t p pre suf ->
  (scan st m t p = Ok None) \/
  (exists tk e st' chars rest, scan st m t p = Ok (Some (tk, e, st')) /\ suf = chars ++ rest
     /\ 1 <= length chars /\ at_split t e (pre ++ chars) rest /\ end_scan m chars p = Ok e).
Proof. exact scan_at_split. Qed.
Print Assumptions C01_scanner_never_panics.

Theorem C01_core_never_panics :
  forall m, 1 <= tabw m -> forall t, wf_text t ->
  forall fuel g, in_core g = true -> gdepth g < fuel ->
  forall lx ys c st, Inv m t lx ys ->
  (exists v lx', run fuel g lx c st = (ROk v lx', st)) \/ (exists e, run fuel g lx c st = (RErr e, st)).
Proof. exact core_total. Qed.
Print Assumptions C01_core_never_panics.

(** the documented preconditions are what the model's explicit panics guard: e.g. an empty token
    slice for any, high < low for a bounded list *)
Example C01_example :
  let t := [Ch 1 1 1] in
  match c_with_filter (c_new Plain t) None with
  | Ok lx =>
    fst (run 10 (GAny []) lx (ctx_new true) (mkstore [] [])) = RPanic
    /\ fst (run 10 (GListB 3 (Some 2) (GOne KA) KComma []) lx (ctx_new true) (mkstore [] [])) = RPanic
    /\ fst (run 10 (GAny [KB]) lx (ctx_new true) (mkstore [] [])) <> RPanic
  | _ => False
  end.
Proof. vm_compute. repeat split; discriminate. Qed.
Print Assumptions C01_example.
