(** C09 — Scoped combinators leave the surrounding parse configuration intact.
    In the model a context is an immutable value: the enclosing context is what it was by
    construction (that the Rust contexts behave like values - raw / unrecoverable, as repaired,
    no longer reach into the Rc-shared cells - is exactly what the correspondence run checks with
    probes before and after every wrapper). Proved here, for ARBITRARY wrapped parsers and
    without any assumption on the lexer: the filter after filter_with / unfiltered is the one
    before; the wrapped parser does run under the requested filter; a failed optional parse hands
    back the very lexer it was given; every later sibling is run with the context value the
    sequence was given; the derived contexts (raw, unrecoverable) are seen by the wrapped parser
    only. *)
From Tephra Require Import CLexer Run RunScope RunFrame.

Theorem C09_filter_with_restores :
  forall f fs a lx c st v lx' st',
  run (S f) (GFilterWith fs a) lx c st = (ROk v lx', st') -> c_filter lx' = c_filter lx.
Proof. exact filter_with_restores. Qed.
Print Assumptions C09_filter_with_restores.

Theorem C09_unfiltered_restores :
  forall f a lx c st v lx' st',
  run (S f) (GUnfiltered a) lx c st = (ROk v lx', st') -> c_filter lx' = c_filter lx.
Proof. exact unfiltered_restores. Qed.
Print Assumptions C09_unfiltered_restores.

Theorem C09_filter_with_installs :
  forall f fs a lx c st v lx' st',
  run (S f) (GFilterWith fs a) lx c st = (ROk v lx', st') ->
  exists l1 l2, c_filter l1 = Some fs /\ c_rec l1 = c_rec lx /\ run f a l1 c st = (ROk v l2, st').
Proof. exact filter_with_installs. Qed.
Print Assumptions C09_filter_with_installs.

Theorem C09_set_filter_frame :
  forall lx f old lx', c_set_filter lx f = Ok (old, lx') ->
  old = c_filter lx /\ c_filter lx' = f /\ c_rec lx' = c_rec lx.
Proof. exact c_set_filter_frame. Qed.
Print Assumptions C09_set_filter_frame.

Theorem C09_failed_maybe_restores_lexer :
  forall f a lx c st e st',
  run f a lx (ctx_unrec c) st = (RErr e, st') -> run (S f) (GMaybe a) lx c st = (ROk VNone lx, st').
Proof. exact maybe_fail_restores. Qed.
Print Assumptions C09_failed_maybe_restores_lexer.

(** whatever [wrap] is (maybe, unrecoverable, raw, require_if, filter_with, unfiltered, stabilize, or
    nothing) and whatever the wrapped parser did, the sibling runs under the context [c] *)
Theorem C09_sibling_context :
  forall f (wrap : G -> G) q p lx c st,
  run (S f) (GRight (wrap q) p) lx c st =
  match run f (wrap q) lx c st with
  | (ROk _ lx', st') => run f p lx' c st'
  | r => r
  end.
Proof. exact sibling_context. Qed.
Print Assumptions C09_sibling_context.

Theorem C09_wrapper_contexts :
  forall f a lx c st,
  run (S f) (GRaw a) lx c st = run f a lx (ctx_raw c) st
  /\ run (S f) (GUnrec a) lx c st = run f a lx (ctx_unrec c) st
  /\ (forall v lx' st', run f a lx (ctx_unrec c) st = (ROk v lx', st') ->
        run (S f) (GMaybe a) lx c st = (ROk (VSome v) lx', st')).
Proof. exact wrapper_contexts. Qed.
Print Assumptions C09_wrapper_contexts.


(** the whole model: whatever a grammar does - change the filter for a wrapped parser, recover, scan
    brackets, loop - a successful run returns a lexer with the filter the run was given; for every grammar,
    lexer (no invariant), context, store and fuel *)
Theorem C09_filter_frame_whole_model :
  forall fuel g lx c st v lx' st', run fuel g lx c st = (ROk v lx', st') -> c_filter lx' = c_filter lx.
Proof. exact filter_after_success. Qed.
Print Assumptions C09_filter_frame_whole_model.

(** concrete: a failing raw(one b) absorbed by maybe, then a probe: the probe's error reaches the
    sink through the pushed transform 7, exactly as without the wrapper *)
Example C09_example :
  let t := [Ch 1 1 1] in
  let c := ctx_pushed (ctx_new true) 7 in
  match c_with_filter (c_new Plain t) None with
  | Ok lx =>
    snd (run 10 (GRight (GMaybe (GRaw (GOne KB))) (GProbe 1)) lx c (mkstore [] []))
    = snd (run 10 (GRight (GMaybe (GOne KB)) (GProbe 1)) lx c (mkstore [] []))
    /\ log (snd (run 10 (GRight (GMaybe (GRaw (GOne KB))) (GProbe 1)) lx c (mkstore [] []))) = [ETagged 7 (EProbe 1)]
  | _ => False
  end.
Proof. vm_compute. split; reflexivity. Qed.
Print Assumptions C09_example.

(** the recorded finding C09-filter-change-at-parse-start on the model (", a" with whitespace filtered): the wrapper
    filter_with(drop ',' and blanks, maybe(one b)) consumes nothing, yet the sibling one(',') behind it fails - entered at a
    parse start, the wrapper's filter change skipped the comma eagerly, and restoring the caller's filter does not bring it
    back. Without the wrapper the same sibling succeeds. The filter itself IS restored (first sentence of the property). *)
Theorem C09_filter_wrapper_at_parse_start_refuted :
  let t := [Ch 1 1 13; Ch 1 1 6; Ch 1 1 1] in
  match c_with_filter (c_new Plain t) (Some (FDrop [KWs])) with
  | Ok lx =>
    match run 10 (GRight (GFilterWith (FDrop [KComma; KWs]) (GMaybe (GOne KB))) (GOne KComma)) lx (ctx_new false) (mkstore [] []),
          run 10 (GRight (GMaybe (GOne KB)) (GOne KComma)) lx (ctx_new false) (mkstore [] []),
          run 10 (GFilterWith (FDrop [KComma; KWs]) (GMaybe (GOne KB))) lx (ctx_new false) (mkstore [] []) with
    | (RErr _, _), (ROk _ _, _), (ROk _ lx', _) => c_filter lx' = Some (FDrop [KWs])
    | _, _, _ => False
    end
  | _ => False
  end.
Proof. vm_compute. reflexivity. Qed.
Print Assumptions C09_filter_wrapper_at_parse_start_refuted.
