(** C20 — Windowed source texts report parent-document positions.
    Parent: a source reading as the unit list [us], starting at [off] ([off = pos_zero] for a
    whole document); [gpos m us off i] is the parent's position of unit boundary i.
    Window: [clipped parent (span (gpos a) (gpos b))], or any source built with a start position. *)
From Tephra Require Import MetricsSpec MetricsFacts Source SourceFacts.

(** the window's text is the parent's units a..b, its start position is the span's start *)
Theorem C20_clipped :
  forall m, 1 <= tabw m -> forall us, wf_units m us -> forall off name a b,
  a <= b -> b <= length us ->
  clipped (mksource (ctext m us) name m off) (mkspan (gpos m us off a) (gpos m us off b))
  = Ok (mksource (ctext m (firstn (b - a) (skipn a us))) name m (gpos m us off a)).
Proof. exact clipped_G. Qed.
Print Assumptions C20_clipped.

(** the positions the window reports are the parent's positions *)
Theorem C20_window_positions :
  forall m us off a d i, i <= d ->
  gpos m (firstn d (skipn a us)) (gpos m us off a) i = gpos m us off (a + i).
Proof. exact gpos_window. Qed.
Print Assumptions C20_window_positions.

(** start, end and full span of any source with a start position *)
Theorem C20_bounds :
  forall m, 1 <= tabw m -> forall us, wf_units m us -> forall off name,
  let s := mksource (ctext m us) name m off in
  src_start_position s = gpos m us off 0 /\
  src_end_position s = Ok (gpos m us off (length us)) /\
  full_span s = Ok (mkspan off (gpos m us off (length us))).
Proof.
  intros m Htab us Hwf off name. cbn zeta. split; [symmetry; apply gpos_0|split].
  - exact (src_end_position_G m Htab us Hwf off name).
  - exact (full_span_G m Htab us Hwf off name).
Qed.
Print Assumptions C20_bounds.

(** navigation inside any source with a start position: the results are the positions of the
    neighbouring / line-bounding unit boundaries *of that source's own unit list* — for a
    window, the parent's results restricted to the window (theorems C20_restrict_line_end and C20_restrict_line_start) *)
Theorem C20_navigation :
  forall m, 1 <= tabw m -> forall us, wf_units m us -> forall off name i, i <= length us ->
  let s := mksource (ctext m us) name m off in
  let G := gpos m us off in
  src_next_position s (G i) = Ok (if i <? length us then Some (G (S i)) else None) /\
  src_previous_position s (G i) = Ok (match i with 0 => None | S j => Some (G j) end) /\
  src_line_end_position s (G i) = Ok (G (line_end_k us i)) /\
  src_line_start_position s (G i) = Ok (G (line_start_k us i)) /\
  src_next_line_start_position s (G i)
    = Ok (if line_end_k us i <? length us then Some (G (S (line_end_k us i))) else None) /\
  src_previous_line_end_position s (G i)
    = Ok (match line_start_k us i with 0 => None | S j => Some (G j) end) /\
  src_is_line_break s (byte (G i)) = Ok (match nth_error us i with Some u => is_lb u | None => false end).
Proof.
  intros m Htab us Hwf off name i Hi. cbn zeta. repeat split.
  - exact (src_next_G m Htab us Hwf off name i Hi).
  - exact (src_previous_G m Htab us Hwf off name i Hi).
  - exact (src_line_end_G m Htab us Hwf off name i Hi).
  - exact (src_line_start_G m Htab us Hwf off name i Hi).
  - exact (src_next_line_start_G m Htab us Hwf off name i Hi).
  - exact (src_previous_line_end_G m Htab us Hwf off name i Hi).
  - exact (src_is_line_break_G m Htab us Hwf off name i Hi).
Qed.
Print Assumptions C20_navigation.

(** widening and splitting inside a window: C18's theorems hold for any start position, so in
    particular for the window source of C20_clipped with positions translated by
    C20_window_positions. *)
Theorem C20_widen :
  forall m, 1 <= tabw m -> forall us, wf_units m us -> forall off name i j,
  i <= j -> j <= length us ->
  widen_to_line (mkspan (gpos m us off i) (gpos m us off j)) (mksource (ctext m us) name m off)
  = Ok (mkspan (gpos m us off (line_start_k us i)) (gpos m us off (line_end_k us j))).
Proof. exact widen_G. Qed.
Print Assumptions C20_widen.

(** the window's line bounds are the parent's, clamped to the window *)
Theorem C20_restrict_line_end :
  forall us a d i, i <= d -> a + d <= length us ->
  a + line_end_k (firstn d (skipn a us)) i = Nat.min (line_end_k us (a + i)) (a + d).
Proof. exact line_end_k_window. Qed.
Print Assumptions C20_restrict_line_end.

Theorem C20_restrict_line_start :
  forall us a d i, i <= d -> a + d <= length us ->
  a + line_start_k (firstn d (skipn a us)) i = Nat.max (line_start_k us (a + i)) a.
Proof. exact line_start_k_window. Qed.
Print Assumptions C20_restrict_line_start.

(** the window's units are well formed (so every theorem above applies to the window) *)
Theorem C20_window_wf :
  forall m us a d, wf_units m us -> wf_units m (firstn d (skipn a us)).
Proof. intros m us a d H. apply wf_units_firstn, wf_units_skipn, H. Qed.
Print Assumptions C20_window_wf.

(** Non-vacuity: clipping "a<TAB>b" (tab 4) at 1:0:1 .. 3:0:5; the window's end column is 5, and
    stepping back over the tab inside the window returns 1:0:1, not column 0. *)
Theorem C20_example :
  let m := {| le := LE_Lf; tabw := 4 |} in
  let us := [UCh (Ch 1 1 97); UCh Tab; UCh (Ch 1 1 98)] in
  let par := mksource (ctext m us) None m pos_zero in
  exists w, clipped par (mkspan (gpos m us pos_zero 1) (gpos m us pos_zero 3)) = Ok w /\
    src_end_position w = Ok (mkpos 3 0 5) /\
    src_previous_position w (mkpos 2 0 4) = Ok (Some (mkpos 1 0 1)).
Proof. eexists. cbn. repeat split. Qed.
Print Assumptions C20_example.
