(** C06 — Sequence, choice and option implement ordered choice with full backtracking.
    Spec: [Peg.peg], a PEG over the list of tokens the lexer will deliver (no lexer, buffer,
    context, store or fuel in it). Theorem: on every grammar of the fragment [peg] covers
    (primitives one/any/any_index/seq/pred, both/left/right/center, map/discard, sub, raw,
    unrecoverable, context push, either, maybe, require_if, cond, implies, antecedent,
    consequent, cond_implies - arbitrarily nested), for every text, line ending, tab width, scanner
    state, filter, look-ahead state, context and store, the interpreter returns the PEG's
    verdict and value, the returned lexer delivers exactly the PEG's remaining tokens with the
    filter and recover state it had, and nothing is sent to the sink.
    Outside the theorem (decided by correspondence + python oracle only): seq_count, end_of_text,
    filter_with/unfiltered (abstract state changes with the filter; recorded finding of C05),
    text/spanned (C14), repetitions (C07), and the recovering combinators. *)
From Tephra Require Import MetricsSpec CLexer LexerFacts Run Peg RunCore.

Theorem C06_peg_sound :
  forall m, 1 <= tabw m -> forall t, wf_text t ->
  forall fuel g, gdepth g < fuel ->
  forall s r, peg g s = Some r ->
  forall lx ys c st, Inv m t lx ys -> kept (c_filter lx) ys = s ->
  match r with
  | POk v s' => exists lx' ys', run fuel g lx c st = (ROk v lx', st) /\ Inv m t lx' ys'
                  /\ c_filter lx' = c_filter lx /\ c_rec lx' = c_rec lx /\ kept (c_filter lx) ys' = s'
  | PFail => exists e, run fuel g lx c st = (RErr e, st)
  end.
Proof. exact run_core. Qed.
Print Assumptions C06_peg_sound.

(** [peg] is defined on the whole fragment: the theorem above is not vacuous on any of it *)
Theorem C06_fragment_covered :
  forall g, in_core g = true -> forall s, exists r, peg g s = Some r.
Proof. exact peg_total. Qed.
Print Assumptions C06_fragment_covered.

(** from the start of a text: the deliverable tokens are the kept entries of the whole sequential scan *)
Theorem C06_whole_text :
  forall m, 1 <= tabw m -> forall t, wf_text t ->
  forall sc f lx0, c_met (c_new sc t) = m -> c_with_filter (c_new sc t) f = Ok lx0 ->
  exists ys, stream m t sc pos_zero ys /\
    forall g fuel r, gdepth g < fuel -> peg g (kept f ys) = Some r ->
    forall c st, agrees m t r lx0 (run fuel g lx0 c st) st.
Proof. exact core_whole_text. Qed.
Print Assumptions C06_whole_text.

(** non-vacuity and backtracking on a concrete case: either(both(one a, one b), both(one a, one c))
    on "a c" with whitespace dropped: the first branch consumes [a] and fails; the second starts
    again from the beginning and succeeds *)
Example C06_example :
  let t := [Ch 1 1 1; Ch 1 1 6; Ch 1 1 3] in
  let g := GEither (GBoth (GOne KA) (GOne KB)) (GBoth (GOne KA) (GOne KC)) in
  match c_with_filter (c_new Plain t) (Some (FDrop [KWs])) with
  | Ok lx => match run 10 g lx (ctx_new true) (mkstore [] []) with
             | (ROk v lx', st) => v = VPair (VTok (mktok KA 0)) (VTok (mktok KC 0)) /\ c_at_end lx' = true /\ log st = []
             | _ => False
             end
  | _ => False
  end.
Proof. vm_compute. repeat split. Qed.
Print Assumptions C06_example.
