(** C06 — Sequence, choice and option implement ordered choice with full backtracking.
    Spec: [Peg.peg], a PEG over the list of tokens the lexer will deliver (no lexer, buffer,
    context, store or fuel in it). Theorem: on every grammar of the fragment [peg] covers
    (primitives one/any/any_index/seq/pred, both/left/right/center, map/discard, sub, raw,
    unrecoverable, context push, either, maybe, require_if, cond, implies, antecedent,
    consequent, cond_implies - arbitrarily nested), for every text, line ending, tab width, scanner
    state, filter, look-ahead state, context and store, the interpreter returns the PEG's
    verdict and value, the returned lexer delivers exactly the PEG's remaining tokens with the
    filter and recover state it had, and nothing is sent to the sink.
    Extended (PegRep / RunPeg / RunPegTotal): the specification [peg2] adds seq_count, end_of_text
    (which see one bit beyond the tokens: whether the scan stops at the end of the text) and all
    repetition / interspersal combinators, nested arbitrarily; on the syntactic class [wfr] the
    specification is total and the interpreter's answer IS the specification's answer, with no
    semantic hypothesis left ([C06_C07_exact]).
    Outside the theorems (decided by correspondence + python oracle only): filter_with/unfiltered
    (abstract state changes with the filter; recorded finding of C05), text/spanned (C14), and the
    recovering combinators. *)
From Tephra Require Import MetricsSpec CLexer LexerFacts LexerFin Run Peg PegRep RunCore RunSafe RunTerm RunPeg RunPegTotal.

Theorem C06_peg_sound :
  forall m, 1 <= tabw m -> forall t, wf_text t ->
  forall fuel g, gdepth g < fuel ->
  forall s r, peg g s = Some r ->
  forall lx ys c st, Inv m t lx ys -> kept (c_filter lx) ys = s ->
  match r with
  | POk v s' => exists lx' ys', run fuel g lx c st = (ROk v lx', st) /\ Inv m t lx' ys'
                  /\ c_filter lx' = c_filter lx /\ c_rec lx' = c_rec lx /\ kept (c_filter lx) ys' = s'
  | PFail => exists e, run fuel g lx c st = (RErr e, st)
  end.
Proof. exact run_core. Qed.
Print Assumptions C06_peg_sound.

(** [peg] is defined on the whole fragment: the theorem above is not vacuous on any of it *)
Theorem C06_fragment_covered :
  forall g, in_core g = true -> forall s, exists r, peg g s = Some r.
Proof. exact peg_total. Qed.
Print Assumptions C06_fragment_covered.

(** from the start of a text: the deliverable tokens are the kept entries of the whole sequential scan *)
Theorem C06_whole_text :
  forall m, 1 <= tabw m -> forall t, wf_text t ->
  forall sc f lx0, c_met (c_new sc t) = m -> c_with_filter (c_new sc t) f = Ok lx0 ->
  exists ys, stream m t sc pos_zero ys /\
    forall g fuel r, gdepth g < fuel -> peg g (kept f ys) = Some r ->
    forall c st, agrees m t r lx0 (run fuel g lx0 c st) st.
Proof. exact core_whole_text. Qed.
Print Assumptions C06_whole_text.

(** non-vacuity and backtracking on a concrete case: either(both(one a, one b), both(one a, one c))
    on "a c" with whitespace dropped: the first branch consumes [a] and fails; the second starts
    again from the beginning and succeeds *)
Example C06_example :
  let t := [Ch 1 1 1; Ch 1 1 6; Ch 1 1 3] in
  let g := GEither (GBoth (GOne KA) (GOne KB)) (GBoth (GOne KA) (GOne KC)) in
  match c_with_filter (c_new Plain t) (Some (FDrop [KWs])) with
  | Ok lx => match run 10 g lx (ctx_new true) (mkstore [] []) with
             | (ROk v lx', st) => v = VPair (VTok (mktok KA 0)) (VTok (mktok KC 0)) /\ c_at_end lx' = true /\ log st = []
             | _ => False
             end
  | _ => False
  end.
Proof. vm_compute. repeat split. Qed.
Print Assumptions C06_example.

(** the extended specification agrees with [peg] where both are defined *)
Theorem C06_peg2_extends_peg :
  forall cl g, in_peg g = true -> forall s, peg2 cl g s = peg g s.
Proof. exact peg2_peg. Qed.
Print Assumptions C06_peg2_extends_peg.

(** whatever the fuel: out of fuel, or exactly the specification's answer (incl. seq_count, end_of_text, repetitions) *)
Theorem C06_peg2_sound :
  forall m, 1 <= tabw m -> forall t, wf_text t ->
  forall fuel g c lx ys st r, Inv m t lx ys -> peg2 (clean t lx ys) g (kept (c_filter lx) ys) = Some r ->
  fst (run fuel g lx c st) = RFuel \/
  match r with
  | POk v s' => exists lx' ys', run fuel g lx c st = (ROk v lx', st) /\ Inv m t lx' ys'
                  /\ c_filter lx' = c_filter lx /\ c_rec lx' = c_rec lx /\ kept (c_filter lx) ys' = s'
                  /\ reach lx ys lx' ys'
  | PFail => exists e, run fuel g lx c st = (RErr e, st)
  end.
Proof. intros m Htab t Ht fuel g c lx ys st r HI Hp. exact (run_peg2 m Htab t Ht fuel g c (clean t lx ys) lx ys st r HI eq_refl Hp). Qed.
Print Assumptions C06_peg2_sound.

(** the exact answer on the syntactic class: no semantic hypothesis, fuel above depth + bytes left + 3 *)
Theorem C06_C07_exact :
  forall m, 1 <= tabw m -> forall t, wf_text t ->
  forall g, wfr g = true ->
  forall F lx ys c st, Inv m t lx ys -> tdepth g + rem t lx + 3 <= F ->
  exists r, peg2 (clean t lx ys) g (kept (c_filter lx) ys) = Some r /\
  match r with
  | POk v s' => exists lx' ys', run F g lx c st = (ROk v lx', st) /\ Inv m t lx' ys'
                  /\ c_filter lx' = c_filter lx /\ c_rec lx' = c_rec lx /\ kept (c_filter lx) ys' = s'
                  /\ reach lx ys lx' ys'
  | PFail => exists e, run F g lx c st = (RErr e, st)
  end.
Proof. exact rep_exact. Qed.
Print Assumptions C06_C07_exact.

(** the specification is total on the class, and the class is not empty: seq_count, end_of_text, a
    bounded interspersal nested in a counted repetition with a stop parser *)
Theorem C06_peg2_total :
  forall cl g, wfr g = true -> forall s, exists r, peg2 cl g s = Some r.
Proof. exact peg2_total. Qed.
Print Assumptions C06_peg2_total.

Example C06_wfr_example :
  wfr (GBoth (GRepeatCountUntil 0 None (GOne KSemi)
                (GLeft (GIntersperse 1 (Some 3) (GBoth (GOne KA) (GMaybe (GOne KB))) (GOne KComma)) (GSeqCount [KC; KC])))
             GEot) = true.
Proof. reflexivity. Qed.
Print Assumptions C06_wfr_example.

(** end_of_text and seq_count on "a c" with whitespace dropped and on "a !" (rejected character):
    the scan of the first ends cleanly, the second does not *)
Example C06_eot_example :
  let g := GBoth (GOne KA) (GBoth (GSeqCount [KC; KC]) GEot) in
  let run_on t := match c_with_filter (c_new Plain t) (Some (FDrop [KWs])) with
                  | Ok lx => fst (run 12 g lx (ctx_new true) (mkstore [] []))
                  | _ => RPanic
                  end in
  (match run_on [Ch 1 1 1; Ch 1 1 6; Ch 1 1 3] with
   | ROk v _ => v = VPair (VTok (mktok KA 0)) (VPair (VNat 1) VUnit)
   | _ => False
   end) /\
  (match run_on [Ch 1 1 1; Ch 1 1 6; Ch 1 1 33] with RErr _ => True | _ => False end).
Proof. vm_compute. split; [reflexivity|exact I]. Qed.
Print Assumptions C06_eot_example.

(** the recorded finding C06-filter-change-at-parse-start on the model ("ab", no filter): filter_with(drop A, empty) consumes
    nothing and succeeds, yet behind it one(A) fails - the filter change at the parse start skipped the [a] eagerly and the
    restored filter cannot bring it back. Ordered-choice semantics (and the same grammar without the wrapper) accepts. *)
Theorem C06_filter_change_at_parse_start_refuted :
  let t := [Ch 1 1 1; Ch 1 1 2] in
  match c_with_filter (c_new Plain t) None with
  | Ok lx =>
    match run 10 (GBoth (GFilterWith (FDrop [KA]) GEmpty) (GOne KA)) lx (ctx_new false) (mkstore [] []),
          run 10 (GBoth GEmpty (GOne KA)) lx (ctx_new false) (mkstore [] []) with
    | (RErr (EUnexpected _ _ _ (Some found)), _), (ROk _ lx', _) => found = mktok KB 0 /\ byte (c_cursor_pos lx') = 1
    | _, _ => False
    end
  | _ => False
  end.
Proof. vm_compute. split; reflexivity. Qed.
Print Assumptions C06_filter_change_at_parse_start_refuted.
