(* Grammar driver: runs the Run model on parse-cases (harness/FORMAT-parse.md). *)
open Model
type string = String.t
open Common
open Lex_driver

let kind x = kind_of_string (Sexp.atom x)
let kinds_of l = List.map kind l
let nat x = nat_of_int (Sexp.int x)
let hi_of x = match x with Sexp.A "inf" -> None | _ -> Some (nat x)
let bool_of x = Sexp.atom x = "T"

let rec pexpr_of (x : Sexp.t) : pexpr =
  match x with
  | Sexp.L [Sexp.A "is"; k] -> PIs (kind k)
  | Sexp.L [Sexp.A "not"; p] -> PNot (pexpr_of p)
  | Sexp.L [Sexp.A "and"; a; b] -> PAnd (pexpr_of a, pexpr_of b)
  | Sexp.L [Sexp.A "or"; a; b] -> POr (pexpr_of a, pexpr_of b)
  | _ -> failwith "pexpr"

let vpred_of = function
  | Sexp.A "always" -> VPAlways | Sexp.A "never" -> VPNever
  | Sexp.L [Sexp.A "istok"; k] -> VPIsTok (kind k)
  | _ -> failwith "vpred"

(* `filterwith none`: the harness installs the filter that keeps every token *)
let fspec_req x = match fspec_of_sexp x with Some f -> f | None -> FDrop []

let rec_counter = ref 0
let rref_of (x : Sexp.t) : (nat * rspec) =
  incr rec_counter;
  let id = nat_of_int !rec_counter in
  match x with
  | Sexp.L [Sexp.A "before"; k] -> (id, RBefore [kind k])
  | Sexp.L [Sexp.A "after"; k] -> (id, RAfter [kind k])
  | Sexp.L (Sexp.A "beforeany" :: ks) -> (id, RBefore (kinds_of ks))
  | Sexp.L (Sexp.A "afterany" :: ks) -> (id, RAfter (kinds_of ks))
  | _ -> failwith "rspec"

let rec g_of (x : Sexp.t) : g =
  match x with
  | Sexp.A "empty" -> GEmpty
  | Sexp.A "eot" -> GEot
  | Sexp.A "userfail" -> GUserFail
  | Sexp.L (Sexp.A name :: args) ->
    (match name, args with
     | "one", [k] -> GOne (kind k)
     | "any", ks -> GAny (kinds_of ks)
     | "anyidx", ks -> GAnyIndex (kinds_of ks)
     | "seq", ks -> GSeq (kinds_of ks)
     | "seqcount", ks -> GSeqCount (kinds_of ks)
     | "pred", [p] -> GPred (pexpr_of p)
     | "left", [a; b] -> GLeft (g_of a, g_of b)
     | "right", [a; b] -> GRight (g_of a, g_of b)
     | "both", [a; b] -> GBoth (g_of a, g_of b)
     | "center", [a; b; c] -> GCenter (g_of a, g_of b, g_of c)
     | "map", [t; a] -> GMap (nat t, g_of a)
     | "discard", [a] -> GDiscard (g_of a)
     | "text", [a] -> GText (g_of a)
     | "spanned", [a] -> GSpanned (g_of a)
     | "sub", [a] -> GSub (g_of a)
     | "either", [a; b] -> GEither (g_of a, g_of b)
     | "maybe", [a] -> GMaybe (g_of a)
     | "reqif", [b; a] -> GRequireIf (bool_of b, g_of a)
     | "cond", [b; a] -> GCond (bool_of b, g_of a)
     | "implies", [a; b] -> GImplies (g_of a, g_of b)
     | "antecedent", [a; b] -> GAntecedent (g_of a, g_of b)
     | "consequent", [a; b] -> GConsequent (g_of a, g_of b)
     | "condimplies", [a; p; b] -> GCondImplies (g_of a, vpred_of p, g_of b)
     | "filterwith", [f; a] -> GFilterWith (fspec_req f, g_of a)
     | "unfiltered", [a] -> GUnfiltered (g_of a)
     | "raw", [a] -> GRaw (g_of a)
     | "unrec", [a] -> GUnrec (g_of a)
     | "recover", [r; a] -> let rr = rref_of r in GRecover (rr, g_of a)
     | "recoverdef", [r; a] -> let rr = rref_of r in GRecoverDef (rr, g_of a)
     | "recoverdelayed", [r; a] -> let rr = rref_of r in GRecoverDelayed (rr, g_of a)
     | "recoverdefdelayed", [r; a] -> let rr = rref_of r in GRecoverDefDelayed (rr, g_of a)
     | "stabilize", [a] -> GStabilize (g_of a)
     | "repeat", [lo; hi; a] -> GRepeat (nat lo, hi_of hi, g_of a)
     | "repeatcount", [lo; hi; a] -> GRepeatCount (nat lo, hi_of hi, g_of a)
     | "repeatuntil", [lo; hi; s; a] -> GRepeatUntil (nat lo, hi_of hi, g_of s, g_of a)
     | "repeatcountuntil", [lo; hi; s; a] -> GRepeatCountUntil (nat lo, hi_of hi, g_of s, g_of a)
     | "intersperse", [lo; hi; a; s] -> GIntersperse (nat lo, hi_of hi, g_of a, g_of s)
     | "interspersecount", [lo; hi; a; s] -> GIntersperseCount (nat lo, hi_of hi, g_of a, g_of s)
     | "intersperseuntil", [lo; hi; st; a; s] -> GIntersperseUntil (nat lo, hi_of hi, g_of st, g_of a, g_of s)
     | "interspersecountuntil", [lo; hi; st; a; s] -> GIntersperseCountUntil (nat lo, hi_of hi, g_of st, g_of a, g_of s)
     | "interspersedef", [lo; hi; a; k] -> GIntersperseDef (nat lo, hi_of hi, g_of a, kind k)
     | "bracket", [os; a; cs; ab] -> GBracket (kinds_of (Sexp.list os), g_of a, kinds_of (Sexp.list cs), kinds_of (Sexp.list ab))
     | "bracketdef", [os; a; cs; ab] -> GBracketDef (kinds_of (Sexp.list os), g_of a, kinds_of (Sexp.list cs), kinds_of (Sexp.list ab))
     | "bracketidx", [os; a; cs; ab] -> GBracketIdx (kinds_of (Sexp.list os), g_of a, kinds_of (Sexp.list cs), kinds_of (Sexp.list ab))
     | "bracketdefidx", [os; a; cs; ab] -> GBracketDefIdx (kinds_of (Sexp.list os), g_of a, kinds_of (Sexp.list cs), kinds_of (Sexp.list ab))
     | "upto", [a; ab] -> GUpTo (g_of a, kinds_of (Sexp.list ab))
     | "list", [a; k; ab] -> GList (g_of a, kind k, kinds_of (Sexp.list ab))
     | "listb", [lo; hi; a; k; ab] -> GListB (nat lo, hi_of hi, g_of a, kind k, kinds_of (Sexp.list ab))
     | "listdef", [a; k; ab] -> GListDef (g_of a, kind k, kinds_of (Sexp.list ab))
     | "listbdef", [lo; hi; a; k; ab] -> GListBDef (nat lo, hi_of hi, g_of a, kind k, kinds_of (Sexp.list ab))
     | "ctxpush", [t; a] -> GCtxPush (nat t, g_of a)
     | "probe", [n] -> GProbe (nat n)
     | _ -> failwith ("grammar " ^ name))
  | _ -> failwith "grammar"

let rec size (x : Sexp.t) = match x with Sexp.A _ -> 1 | Sexp.L l -> List.fold_left (fun a y -> a + size y) 1 l

let rec s_val (v : val0) : string =
  match v with
  | VUnit -> "unit" | VTok t -> "(tok " ^ s_tok t ^ ")" | VNat n -> Printf.sprintf "(nat %d)" (int_of_nat n)
  | VPair (a, b) -> "(pair " ^ s_val a ^ " " ^ s_val b ^ ")"
  | VNone -> "(none)" | VSome v -> "(some " ^ s_val v ^ ")"
  | VList l -> "(list" ^ String.concat "" (List.map (fun v -> " " ^ s_val v) l) ^ ")"
  | VTag (n, v) -> Printf.sprintf "(tag %d %s)" (int_of_nat n) (s_val v)
  | VSpanned (s, v) -> "(spanned " ^ s_span s ^ " " ^ s_val v ^ ")"
  | VText (s, e) -> Printf.sprintf "(text %d %d)" (int_of_nat s) (int_of_nat e)
  | VDflt -> "dflt"

let s_expected = function
  | ExTok t -> "(tok " ^ s_tok t ^ ")"
  | ExAny ts -> "(any" ^ String.concat "" (List.map (fun t -> " " ^ s_tok t) ts) ^ ")"
  | ExEot -> "eot" | ExOther -> "other" | ExAnyToken -> "anytoken"

let rec s_err (e : err) : string =
  match e with
  | EUnexpected (es, ts, ex, f) ->
    Printf.sprintf "(unexpected (es %s) (ts %s) (exp %s) (found %s))" (s_span es) (s_span ts) (s_expected ex)
      (match f with Some t -> s_tok t | None -> "eot")
  | EUnrecognized es -> "(unrecognized (es " ^ s_span es ^ "))"
  | EBoundary (es, p) -> "(boundary (es " ^ s_span es ^ ") (end " ^ s_pos p ^ "))"
  | EBracket (k, s1, s2) ->
    let kn = match k with BNone -> "none" | BUnclosed -> "unclosed" | BUnopened -> "unopened" | BMismatch -> "mismatch" in
    "(bracket " ^ kn ^ " " ^ s_span s1 ^ (match s2 with Some s -> " " ^ s_span s | None -> "") ^ ")"
  | ECount (es, f, lo, hi) ->
    Printf.sprintf "(count (es %s) %d %d %s)" (s_span es) (int_of_nat f) (int_of_nat lo)
      (match hi with Some h -> string_of_int (int_of_nat h) | None -> "inf")
  | ERecover -> "recover"
  | ETagged (t, e') -> Printf.sprintf "(tagged %d %s)" (int_of_nat t) (s_err e')
  | EProbe n -> Printf.sprintf "(probe %d)" (int_of_nat n)
  | EUser -> "user"
  | EProbeRet n -> Printf.sprintf "(probe-ret %d)" (int_of_nat n)

let s_lx (lx : clexer) : string =
  let rest = match c_drain (fuel_of lx) lx with
    | Ok (l, _) -> String.concat "" (List.map (fun (t, _) -> " " ^ s_tok t) l)
    | _ -> " PANIC" in
  Printf.sprintf "(lx (cur %s) (ps %s) (ts %s) (flt %s) (rec %s) (rest%s))"
    (s_pos (c_cursor_pos lx)) (s_span (c_parse_span lx)) (s_span (c_token_span lx))
    (s_bool (lx.c_filter <> None)) (s_bool (lx.c_rec <> None)) rest

let run_line (line : string) : string option =
  match Sexp.parse line with
  | Sexp.L (Sexp.A "parse-case" :: Sexp.A id :: fields) ->
    let f k = Sexp.field fields k in
    let m = { le = le_of_string (Sexp.atom (List.hd (f "le"))); tabw = nat_of_int (Sexp.int (List.hd (f "tab"))) } in
    let text = text_of_sexps (f "text") in
    let sc = scanner_of_string (Sexp.atom (List.hd (f "scanner"))) in
    let buf = Buffer.create 512 in
    Buffer.add_string buf ("(" ^ id);
    let filter_first = (try Sexp.atom (List.hd (f "order")) = "fm" with _ -> false) in
    (match (if filter_first then
              (match c_with_filter (c_new sc text) (fspec_of_sexp (List.hd (f "filter"))) with
               | Ok lx0 -> c_with_metrics lx0 m
               | Panic -> Panic | Fuel -> Fuel)
            else
              (match c_with_metrics (c_new sc text) m with
               | Ok lx0 -> c_with_filter lx0 (fspec_of_sexp (List.hd (f "filter")))
               | Panic -> Panic | Fuel -> Fuel)) with
     | Ok lx ->
       let sink = Sexp.atom (List.hd (f "sink")) = "1" in
       let ctx = List.fold_left (fun c t -> ctx_pushed c (nat t)) (ctx_new sink) (f "pushed") in
       let runs = Sexp.int (List.hd (f "runs")) in
       rec_counter := 0;
       let gsx = List.hd (f "g") in
       let g = g_of gsx in
       let fuel = nat_of_int (80 + 10 * List.length text + 10 * size gsx) in
       let st = ref { found = []; log = [] } in
       let lxr = ref lx in
       (try
          for _ = 1 to runs do
            let (o, st') = run fuel g !lxr ctx !st in
            st := st';
            match o with
            | ROk (v, lx') -> Buffer.add_string buf (" (run (ok " ^ s_val v ^ ") " ^ s_lx lx' ^ ")"); lxr := lx'
            | RErr e -> Buffer.add_string buf (" (run (err " ^ s_err e ^ "))"); raise Exit
            | RPanic -> Buffer.add_string buf " (run PANIC)"; raise Exit
            | RFuel -> Buffer.add_string buf " (run DIVERGED)"; raise Exit
          done
        with Exit -> ());
       Buffer.add_string buf (" (sink" ^ String.concat "" (List.map (fun e -> " " ^ s_err e) !st.log) ^ ")")
     | _ -> Buffer.add_string buf " (run PANIC) (sink)");
    if Sexp.atom (List.hd (f "fmt")) = "1" then Buffer.add_string buf " (fmt ok)";
    Buffer.add_string buf ")";
    Some (Buffer.contents buf)
  | _ -> None
