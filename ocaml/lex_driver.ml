(* Lexer driver: runs the CLexer model on lex-cases (harness/FORMAT-parse.md). *)
open Model
type string = String.t
open Common

let kinds = [ "A", KA; "B", KB; "C", KC; "D", KD; "X", KX; "U", KU; "Ws", KWs; "Comma", KComma;
              "Semi", KSemi; "Hash", KHash; "LP", KLP; "RP", KRP; "LK", KLK; "RK", KRK; "LC", KLC; "RC", KRC ]
let kind_of_string s = try List.assoc s kinds with Not_found -> failwith ("kind " ^ s)
let string_of_kind k = fst (List.find (fun (_, k') -> k' = k) kinds)
let s_tok (t : tok) =
  let n = int_of_nat t.tn in
  if n = 0 then string_of_kind t.tkind else Printf.sprintf "%s/%d" (string_of_kind t.tkind) n

let fspec_of_sexp (x : Sexp.t) : fspec option =
  match x with
  | Sexp.A "none" -> None
  | Sexp.L (Sexp.A "drop" :: ks) -> Some (FDrop (List.map (fun k -> kind_of_string (Sexp.atom k)) ks))
  | Sexp.L (Sexp.A "keep" :: ks) -> Some (FKeep (List.map (fun k -> kind_of_string (Sexp.atom k)) ks))
  | _ -> failwith "filter spec"

let kindset (l : Sexp.t list) : tok -> bool =
  let ks = List.map (fun k -> kind_of_string (Sexp.atom k)) l in
  fun t -> List.mem t.tkind ks

let scanner_of_string = function
  | "plain" | "literal" | "matching" -> Plain | "counting" -> Counting O | "modal" -> Modal false | s -> failwith ("scanner " ^ s)

let obs (lx : clexer) : string =
  Printf.sprintf "(ts %s) (ps %s) (cur %s) (pk %s) (emp %s) (flt %s) (pps %s) (pcur %s)"
    (s_span (c_token_span lx)) (s_span (c_parse_span lx)) (s_pos (c_cursor_pos lx))
    (s_opt s_span (c_peek_token_span lx)) (s_bool (c_at_end lx))
    (s_bool (match lx.c_filter with Some _ -> true | None -> false))
    (s_opt s_span (c_peek_parse_span lx)) (s_opt s_pos (c_peek_cursor_pos lx))

exception Stop of string

let text_range (lx : clexer) (sp : span) : string =
  Printf.sprintf "%d..%d" (int_of_nat sp.sstart.byte) (int_of_nat sp.send.byte)

let s_drained lx l =
  String.concat " " (List.map (fun (t, sp) -> Printf.sprintf "(%s %s %s)" (s_tok t) (s_span sp) (text_range lx sp)) l)

(* runs ops, appending observations to buf; returns the final lexer; raises Stop on panic *)
let rec run_ops (buf : Buffer.t) (lx : clexer) (ops : Sexp.t list) : clexer =
  List.fold_left (fun lx op -> run_op buf lx op) lx ops

and run_op buf lx op : clexer =
  let add = Buffer.add_string buf in
  let name = match op with Sexp.A a -> a | Sexp.L (Sexp.A a :: _) -> a | _ -> failwith "op" in
  let fail () = add (Printf.sprintf " (%s PANIC)" name); raise (Stop name) in
  let get r = match r with Ok v -> v | Panic | Fuel -> fail () in
  let fin res lx' = add (Printf.sprintf " (%s %s %s)" name res (obs lx')); lx' in
  match op with
  | Sexp.A "next" -> let (r, lx') = get (c_next lx) in fin (s_opt s_tok r) lx'
  | Sexp.A "peek" -> let (r, lx') = get (c_peek lx) in fin (s_opt s_tok r) lx'
  | Sexp.L (Sexp.A "nextif" :: ks) -> let (r, lx') = get (c_next_if lx (kindset ks)) in fin (s_opt s_tok r) lx'
  | Sexp.L [Sexp.A "nextifeq"; k; n] ->
    let e = { tkind = kind_of_string (Sexp.atom k); tn = nat_of_int (Sexp.int n) } in
    let (r, lx') = get (c_next_if_eq lx e) in fin (s_opt s_tok r) lx'
  | Sexp.L (Sexp.A "advto" :: ks) -> let (r, lx') = get (c_advance_to (fuel_of lx) lx (kindset ks)) in fin (s_bool r) lx'
  | Sexp.L (Sexp.A "advupto" :: ks) -> let (r, lx') = get (c_advance_up_to (fuel_of lx) lx (kindset ks)) in fin (s_bool r) lx'
  | Sexp.L [Sexp.A "setfilter"; f] -> let (r, lx') = get (c_set_filter lx (fspec_of_sexp f)) in fin (s_bool (r <> None)) lx'
  | Sexp.A "sublex" | Sexp.A "intosub" -> let lx' = get (c_start_sublex lx) in fin "-" lx'
  | Sexp.A "emptyf" -> let (r, lx') = get (c_is_empty_with_filter lx) in fin (s_bool r) lx'
  | Sexp.A "query" -> fin "-" lx
  | Sexp.A "drain" ->
    let (l, lx') = get (c_drain (fuel_of lx) lx) in
    fin ("(" ^ s_drained lx l ^ ")") lx'
  | Sexp.L (Sexp.A "clone" :: inner) ->
    add " (clone (";
    let ib = Buffer.create 256 in
    let cl = (try run_ops ib lx inner with Stop n -> add (Buffer.contents ib); add "))"; raise (Stop n)) in
    let s = Buffer.contents ib in
    add (if String.length s > 0 then String.sub s 1 (String.length s - 1) else "");
    add ")";
    (match c_drain (fuel_of cl) cl with
     | Ok (l, _) -> add (" (drained" ^ (if l = [] then "" else " " ^ s_drained cl l) ^ ")")
     | _ -> add " PANIC)"; raise (Stop "clone"));
    add (" " ^ obs lx ^ ")");
    lx
  | _ -> failwith ("unknown op " ^ name)

let run_case id scanner text build ops : string =
  let buf = Buffer.create 1024 in
  Buffer.add_string buf ("(" ^ id);
  (try
     let lx = c_new scanner text in
     let okb r = match r with Ok l -> l | _ -> Buffer.add_string buf " (init PANIC)"; raise (Stop "init") in
     let lx = List.fold_left (fun lx b ->
       match b with
       | Sexp.L [Sexp.A "metrics"; l; t] ->
         okb (c_with_metrics lx { le = le_of_string (Sexp.atom l); tabw = nat_of_int (Sexp.int t) })
       | Sexp.L [Sexp.A "le"; l] -> okb (c_with_le lx (le_of_string (Sexp.atom l)))
       | Sexp.L [Sexp.A "tab"; t] -> okb (c_with_tab lx (nat_of_int (Sexp.int t)))
       | Sexp.L [Sexp.A "filter"; f] ->
         (match c_with_filter lx (fspec_of_sexp f) with
          | Ok lx' -> lx'
          | _ -> Buffer.add_string buf " (init PANIC)"; raise (Stop "init"))
       | _ -> failwith "build op") lx build in
     Buffer.add_string buf (" (init " ^ obs lx ^ ")");
     ignore (run_ops buf lx ops)
   with Stop _ -> ());
  Buffer.add_string buf ")";
  Buffer.contents buf

let run_line (line : string) : string option =
  match Sexp.parse line with
  | Sexp.L (Sexp.A "lex-case" :: Sexp.A id :: fields) ->
    let f k = Sexp.field fields k in
    Some (run_case id (scanner_of_string (Sexp.atom (List.hd (f "scanner")))) (text_of_sexps (f "text")) (f "build") (f "ops"))
  | _ -> None
