(* Shared between the drivers: nat conversion, alphabet, value printing. *)
open Model
type string = String.t

let rec nat_of_int (n : int) : nat = if n <= 0 then O else S (nat_of_int (n - 1))
let rec int_of_nat (n : nat) : int = match n with O -> 0 | S m -> 1 + int_of_nat m

(* symbol, code point, len_utf8, width *)
let alphabet : (string * int * int * int) list = [
  "a", 0x61, 1, 1; "b", 0x62, 1, 1; "c", 0x63, 1, 1; "d", 0x64, 1, 1; "x", 0x78, 1, 1;
  "sp", 0x20, 1, 1; "TAB", 9, 1, 0; "CR", 13, 1, 0; "LF", 10, 1, 0;
  "e2", 0xE9, 2, 1; "w3", 0x4E16, 3, 2; "z3", 0x200B, 3, 0; "w4", 0x1F600, 4, 2; "z2", 0x0301, 2, 0;
  "bang", 0x21, 1, 1; "comma", 0x2C, 1, 1; "semi", 0x3B, 1, 1; "hash", 0x23, 1, 1;
  "lp", 0x28, 1, 1; "rp", 0x29, 1, 1; "lk", 0x5B, 1, 1; "rk", 0x5D, 1, 1; "lc", 0x7B, 1, 1; "rc", 0x7D, 1, 1;
]

(* character identity = small index: a=1 b=2 c=3 d=4 x=5 sp=6 e2=7 w3=8 z3=9 w4=10 z2=11 bang=12 ... rc=21 *)
let ids : (string * int) list = [
  "a", 1; "b", 2; "c", 3; "d", 4; "x", 5; "sp", 6; "e2", 7; "w3", 8; "z3", 9; "w4", 10; "z2", 11;
  "bang", 12; "comma", 13; "semi", 14; "hash", 15; "lp", 16; "rp", 17; "lk", 18; "rk", 19; "lc", 20; "rc", 21 ]

let chr_of_sym (s : string) : chr =
  match s with
  | "TAB" -> Tab | "CR" -> Cr | "LF" -> Lf
  | _ ->
    let rec go = function
      | [] -> failwith ("unknown symbol " ^ s)
      | (n, _, l, w) :: _ when n = s -> Ch (nat_of_int l, nat_of_int w, nat_of_int (List.assoc s ids))
      | _ :: r -> go r in
    go alphabet

let sym_of_chr (c : chr) : string =
  match c with
  | Tab -> "TAB" | Cr -> "CR" | Lf -> "LF"
  | Ch (_, _, id) ->
    let i = int_of_nat id in
    let rec go = function
      | [] -> failwith "unknown chr"
      | (n, i') :: _ when i' = i -> n
      | _ :: r -> go r in
    go ids

let print_alphabet () =
  List.iter (fun (n, cp, l, w) -> Printf.printf "(sym %s %d %d %d)\n" n cp l w) alphabet

let text_of_sexps (l : Sexp.t list) : text = List.map (fun x -> chr_of_sym (Sexp.atom x)) l

let class_pred (name : string) : chr -> bool =
  let mem l c = List.mem (sym_of_chr c) l in
  match name with
  | "alpha" -> mem ["a"; "b"; "c"; "d"; "x"; "e2"; "w3"; "w4"]
  | "space" -> mem ["sp"; "TAB"]
  | "any" -> (fun _ -> true)
  | "nl" -> mem ["CR"; "LF"]
  | "wide" -> mem ["w3"; "w4"; "z3"; "z2"]
  | "cr" -> mem ["CR"]
  | "notlf" -> (fun c -> sym_of_chr c <> "LF")
  | _ -> failwith ("unknown class " ^ name)

let mkpos b l c : pos = { byte = nat_of_int b; line = nat_of_int l; col = nat_of_int c }
let pos_of_sexp (x : Sexp.t) : pos =
  match Sexp.list x with
  | [b; l; c] -> mkpos (Sexp.int b) (Sexp.int l) (Sexp.int c)
  | _ -> failwith "pos expected"

let le_of_string = function
  | "lf" -> LE_Lf | "cr" -> LE_Cr | "crlf" -> LE_CrLf | s -> failwith ("le " ^ s)

(* printing *)
let s_pos (p : pos) = Printf.sprintf "%d:%d:%d" (int_of_nat p.byte) (int_of_nat p.line) (int_of_nat p.col)
let s_span (s : span) = s_pos s.sstart ^ "~" ^ s_pos s.send
let s_bool b = if b then "T" else "F"
let s_opt f = function Some x -> f x | None -> "-"
let s_res (f : 'a -> string) (r : 'a res) : string =
  match r with Ok a -> f a | Panic -> "PANIC" | Fuel -> "FUEL"
let s_few (f : span few) : string =
  match f with
  | Zero -> "(few)"
  | One a -> "(few " ^ s_span a ^ ")"
  | Two (a, b) -> "(few " ^ s_span a ^ " " ^ s_span b ^ ")"
