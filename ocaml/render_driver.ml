(* Render driver: runs the Render model on render-cases (harness/FORMAT-render.md). *)
open Model
type string = String.t
open Common

let char_of_ascii (a : Model.ascii) : char =
  match a with
  | Ascii (b0, b1, b2, b3, b4, b5, b6, b7) ->
    let bit b k = if b then 1 lsl k else 0 in
    Char.chr (bit b0 0 + bit b1 1 + bit b2 2 + bit b3 3 + bit b4 4 + bit b5 5 + bit b6 6 + bit b7 7)

let rec string_of_coq (s : Model.string) : string =
  match s with
  | EmptyString -> ""
  | String (a, r) -> String.make 1 (char_of_ascii a) ^ string_of_coq r

(* UTF-8 encoding of a code point *)
let utf8 (cp : int) : string =
  let b = Buffer.create 4 in
  if cp < 0x80 then Buffer.add_char b (Char.chr cp)
  else if cp < 0x800 then (Buffer.add_char b (Char.chr (0xC0 lor (cp lsr 6))); Buffer.add_char b (Char.chr (0x80 lor (cp land 0x3F))))
  else if cp < 0x10000 then (Buffer.add_char b (Char.chr (0xE0 lor (cp lsr 12))); Buffer.add_char b (Char.chr (0x80 lor ((cp lsr 6) land 0x3F)));
                             Buffer.add_char b (Char.chr (0x80 lor (cp land 0x3F))))
  else (Buffer.add_char b (Char.chr (0xF0 lor (cp lsr 18))); Buffer.add_char b (Char.chr (0x80 lor ((cp lsr 12) land 0x3F)));
        Buffer.add_char b (Char.chr (0x80 lor ((cp lsr 6) land 0x3F))); Buffer.add_char b (Char.chr (0x80 lor (cp land 0x3F))));
  Buffer.contents b

let bytes_of_chr (c : chr) : string =
  match c with
  | Tab -> "\t" | Cr -> "\r" | Lf -> "\n"
  | _ ->
    let sym = sym_of_chr c in
    let (_, cp, _, _) = List.find (fun (n, _, _, _) -> n = sym) alphabet in
    utf8 cp

let mtype_of = function
  | "info" -> MInfo | "error" -> MError | "warning" -> MWarning | "note" -> MNote | "help" -> MHelp
  | s -> failwith ("mtype " ^ s)

let span_of (x : Sexp.t list) : span =
  match List.map Sexp.int x with
  | [b1; l1; c1; b2; l2; c2] -> enclosing (mkpos b1 l1 c1) (mkpos b2 l2 c2)
  | _ -> failwith "span"

let render_cells (cells : ocell list) : string =
  let b = Buffer.create 1024 in
  List.iter (fun c ->
    match c with
    | OS s -> Buffer.add_string b (string_of_coq s)
    | ONat n -> Buffer.add_string b (string_of_int (int_of_nat n))
    | ONatR (w, n) -> Buffer.add_string b (Printf.sprintf "%*d" (int_of_nat w) (int_of_nat n))
    | ORep (s, n) -> let s = string_of_coq s in for _ = 1 to int_of_nat n do Buffer.add_string b s done
    | OSrc t -> List.iter (fun ch -> Buffer.add_string b (bytes_of_chr ch)) t
    | OMsg n -> Buffer.add_string b ("msg" ^ string_of_int (int_of_nat n))
    | OHl n -> Buffer.add_string b ("m" ^ string_of_int (int_of_nat n))
    | ONl -> Buffer.add_char b '\n') cells;
  Buffer.contents b

(* the characters of a cell as the model's own denotation [den] gives them (RenderColor.v) *)
let render_atoms (b : Buffer.t) (atoms : atom list) : unit =
  List.iter (function
    | AC a -> Buffer.add_char b (char_of_ascii a)
    | ADec n -> Buffer.add_string b (string_of_int (int_of_nat n))
    | ASrc ch -> Buffer.add_string b (bytes_of_chr ch)) atoms

let render_den (cells : ocell list) : string =
  let b = Buffer.create 1024 in
  List.iter (fun c -> render_atoms b (den c)) cells;
  Buffer.contents b

(* the `colored` crate (2.x): ESC[ (1;)? <fg> m  value  ESC[0m, padding applied to the value *)
let esc_of (s : style) : string =
  let fg = match s.st_col with CWhite -> "97" | CRed -> "91" | CYellow -> "93" | CBlue -> "94" | CGreen -> "92" in
  "\027[" ^ (if s.st_bold then "1;" else "") ^ fg ^ "m"

let render_coloured (cells : ccell list) : string =
  let b = Buffer.create 2048 in
  List.iter (function
    | CP c -> render_atoms b (den c)
    | CS (s, c) -> Buffer.add_string b (esc_of s); render_atoms b (den c); Buffer.add_string b "\027[0m") cells;
  Buffer.contents b

let hex (s : string) : string =
  let b = Buffer.create (2 * String.length s) in
  String.iter (fun c -> Buffer.add_string b (Printf.sprintf "%02x" (Char.code c))) s;
  Buffer.contents b

let build (src : source) (named : bool) (displays : Sexp.t list) (force_error : bool) (ty : mtype) (code : bool) (msg : int)
  : code_display res =
  let rec sds = function
    | [] -> Ok []
    | Sexp.L (Sexp.A "display" :: Sexp.L (Sexp.A "span" :: sp) :: hls) :: rest ->
      let hl = List.map (function
        | Sexp.L [Sexp.A "hl"; t; m; Sexp.L (Sexp.A "span" :: hsp)] ->
          { h_span = span_of hsp; h_msg = nat_of_int (Sexp.int m); h_ty = mtype_of (Sexp.atom t) }
        | _ -> failwith "hl") hls in
      (match sd_new src (span_of sp) named hl with
       | Ok sd -> (match sds rest with Ok r -> Ok (sd :: r) | Panic -> Panic | Fuel -> Fuel)
       | Panic -> Panic | Fuel -> Fuel)
    | _ -> failwith "display" in
  match sds displays with
  | Ok l -> Ok { cd_msg = nat_of_int msg; cd_ty = (if force_error then MError else ty); cd_code = (if force_error then false else code); cd_sds = l }
  | Panic -> Panic | Fuel -> Fuel

let on_cd (r : code_display res) (f : code_display -> 'a res) : 'a res =
  match r with Ok cd -> f cd | Panic -> Panic | Fuel -> Fuel

let run_line (line : string) : string option =
  match Sexp.parse line with
  | Sexp.L (Sexp.A "render-case" :: Sexp.A id :: fields) ->
    let f k = Sexp.field fields k in
    let m = { le = le_of_string (Sexp.atom (List.hd (f "le"))); tabw = nat_of_int (Sexp.int (List.hd (f "tab"))) } in
    let named = Sexp.atom (List.hd (f "named")) = "1" in
    let src = { stext = text_of_sexps (f "text"); sname = (if named then Some O else None); smet = m; soff = mkpos 0 0 0 } in
    let ty = mtype_of (Sexp.atom (List.hd (f "mtype"))) in
    let code = Sexp.atom (List.hd (f "code")) = "1" in
    let msg = Sexp.int (List.hd (f "msg")) in
    let cd = build src named (f "displays") false ty code msg in
    let plain = on_cd cd (cd_render src) in
    let coloured = on_cd cd (cd_render_c src) in
    let err = on_cd (build src named (f "displays") true ty code msg) (cd_render src) in
    (* the plain bytes twice: by the driver's own cell printer and through the model's denotation [den]; they must agree *)
    let s_plain = match plain with
      | Ok c -> let a = render_cells c and b = render_den c in if a = b then hex a else "DEN-MISMATCH"
      | Panic -> "PANIC" | Fuel -> "FUEL" in
    let s_col = match coloured with Ok c -> hex (render_coloured c) | Panic -> "PANIC" | Fuel -> "FUEL" in
    (* colour-eq: the model's coloured rendering, styles stripped, against its plain rendering (theorem colour_strip_plain);
       owned == borrowed by construction (the model has one kind of source) *)
    let ceq = match plain, coloured with
      | Ok p, Ok c -> if render_den (strip c) = render_den p then "T" else "F"
      | _, _ -> "PANIC" in
    let tf r = match r with Ok _ -> "T" | _ -> "PANIC" in
    Some (Printf.sprintf "(%s (plain %s) (colour %s) (colour-eq %s) (owned-eq %s) (owned-plain-eq %s))" id s_plain s_col ceq (tf err) (tf err))
  | _ -> None
