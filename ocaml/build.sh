#!/bin/sh
# Extraction of the model and build of the correspondence driver.
set -e
cd "$(dirname "$0")"
coqc -Q ../coq/theories Tephra Extract.v > extract.log 2>&1 || { cat extract.log; exit 1; }
ocamlfind ocamlopt -package str -O2 -w -a model.mli model.ml sexp.ml common.ml span_driver.ml lex_driver.ml ctx_driver.ml parse_driver.ml render_driver.ml driver.ml -o driver 2>&1 | grep -v 'options -O' || true
test -x driver
