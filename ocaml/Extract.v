(** Extraction of the executable model for the correspondence driver.
    ExtrOcamlBasic only (its Extract Inductive for bool, option, unit, list, prod, sumbool,
    sumor, comparison as shipped); no Extract Constant; nat stays Peano. *)
From Coq Require Extraction ExtrOcamlBasic.
From Tephra Require Import Base Text Metrics Span Source Scanner CLexer Ctx HCtx Grammar Run Render RenderColor.
Extraction Language OCaml.
Set Extraction KeepSingleton.
Extraction "model.ml"
  blen split_at split_before
  next_position previous_position is_line_break line_end_position line_start_position
  previous_line_end_position next_line_start_position start_position end_position
  position_after_str position_after_chars_matching next_position_after_chars_matching
  pos_ltb pos_leb pos_eqb enclosing span_at contains intersects adjacent enclose union intersect minus
  src_new src_end_position full_span src_start_position src_next_position src_previous_position src_is_line_break
  src_line_end_position src_line_start_position src_previous_line_end_position
  src_next_line_start_position src_position_after_str src_position_after_chars_matching
  src_next_position_after_chars_matching clipped widen_to_line split_lines_of sl_next sl_len
  scan fkeep tok_eqb kind_eqb
  c_new c_with_metrics c_with_le c_with_tab c_with_filter c_set_filter c_start_sublex c_peek c_next
  c_next_if c_next_if_eq c_advance_to c_advance_up_to c_drain c_token_span c_parse_span c_cursor_pos
  c_peek_token_span c_peek_parse_span c_peek_cursor_pos c_is_empty_with_filter c_at_end fuel_of
  ctx_new run_trees ctx_pushed run mkstore set_met hrun hinit
  sd_new cd_render cd_render_c den strip.
