(* Minimal S-expressions: atoms and lists. *)
type t = A of string | L of t list

let parse (s : string) : t =
  let n = String.length s in
  let pos = ref 0 in
  let rec skip () = if !pos < n && (s.[!pos] = ' ' || s.[!pos] = '\t' || s.[!pos] = '\n' || s.[!pos] = '\r') then (incr pos; skip ()) in
  let rec item () =
    skip ();
    if !pos >= n then failwith "sexp: unexpected end"
    else if s.[!pos] = '(' then begin
      incr pos;
      let rec items acc =
        skip ();
        if !pos >= n then failwith "sexp: unclosed"
        else if s.[!pos] = ')' then (incr pos; L (List.rev acc))
        else items (item () :: acc) in
      items []
    end else begin
      let st = !pos in
      while !pos < n && not (s.[!pos] = ' ' || s.[!pos] = '(' || s.[!pos] = ')' || s.[!pos] = '\t' || s.[!pos] = '\n' || s.[!pos] = '\r') do incr pos done;
      A (String.sub s st (!pos - st))
    end in
  item ()

let atom = function A s -> s | L _ -> failwith "sexp: atom expected"
let list = function L l -> l | A a -> failwith ("sexp: list expected, got " ^ a)
let int x = int_of_string (atom x)

(* (key v...) lookup inside a list of items *)
let field (items : t list) (key : string) : t list =
  let rec go = function
    | [] -> failwith ("sexp: missing field " ^ key)
    | L (A k :: vs) :: _ when k = key -> vs
    | _ :: r -> go r in
  go items

let field_opt items key = try Some (field items key) with Failure _ -> None
