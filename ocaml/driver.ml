let iter_lines file f =
  let ic = open_in file in
  (try while true do
       let line = input_line ic in
       if String.length line > 0 then f line
     done with End_of_file -> ());
  close_in ic

let () =
  match Array.to_list Sys.argv with
  | [_; "--alphabet"] -> Common.print_alphabet ()
  | [_; "span"; file] -> Span_driver.main file
  | [_; ("parse" | "render"); file] ->
    iter_lines file (fun line ->
      (* a case the driver cannot read or run must not take the rest of its shard with it *)
      try
      match Lex_driver.run_line line with
      | Some out -> print_endline out
      | None ->
        match Ctx_driver.run_line line with
        | Some out -> print_endline out
        | None ->
          match Parse_driver.run_line line with
          | Some out -> print_endline out
          | None ->
            match Render_driver.run_line line with
            | Some out -> print_endline out
            | None -> print_endline "(unsupported-case)"
      with
      | Stack_overflow -> print_endline "(MODEL-ERROR stack-overflow)"
      | Failure m -> print_endline ("(MODEL-ERROR failure " ^ String.escaped m ^ ")")
      | Not_found -> print_endline "(MODEL-ERROR not-found)"
      | Invalid_argument m -> print_endline ("(MODEL-ERROR invalid-argument " ^ String.escaped m ^ ")"))
  | _ -> prerr_endline "usage: driver (--alphabet | span FILE | parse FILE)"; exit 2
