let iter_lines file f =
  let ic = open_in file in
  (try while true do
       let line = input_line ic in
       if String.length line > 0 then f line
     done with End_of_file -> ());
  close_in ic

let () =
  match Array.to_list Sys.argv with
  | [_; "--alphabet"] -> Common.print_alphabet ()
  | [_; "span"; file] -> Span_driver.main file
  | [_; ("parse" | "render"); file] ->
    iter_lines file (fun line ->
      match Lex_driver.run_line line with
      | Some out -> print_endline out
      | None ->
        match Ctx_driver.run_line line with
        | Some out -> print_endline out
        | None ->
          match Parse_driver.run_line line with
          | Some out -> print_endline out
          | None ->
            match Render_driver.run_line line with
            | Some out -> print_endline out
            | None -> print_endline "(unsupported-case)")
  | _ -> prerr_endline "usage: driver (--alphabet | span FILE | parse FILE)"; exit 2
