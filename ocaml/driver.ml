let () =
  match Array.to_list Sys.argv with
  | [_; "--alphabet"] -> Common.print_alphabet ()
  | [_; "span"; file] -> Span_driver.main file
  | _ -> prerr_endline "usage: driver (--alphabet | span FILE)"; exit 2
