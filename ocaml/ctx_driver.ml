(* Context driver: runs the Ctx model on ctx-cases. *)
open Model
type string = String.t
open Common

let rec tree_of_sexp (x : Sexp.t) : ctree =
  let kids l = List.map tree_of_sexp l in
  match x with
  | Sexp.L (Sexp.A "push" :: t :: r) -> TPush (nat_of_int (Sexp.int t), kids r)
  | Sexp.L (Sexp.A "pushmut" :: t :: r) -> TPushMut (nat_of_int (Sexp.int t), kids r)
  | Sexp.L (Sexp.A "locked" :: b :: r) -> TLocked (Sexp.atom b = "T", kids r)
  | Sexp.L (Sexp.A "fork" :: r) -> TFork (kids r)
  | Sexp.L (Sexp.A "raw" :: r) -> TRaw (kids r)
  | Sexp.L (Sexp.A "unrec" :: r) -> TUnrec (kids r)
  (* the wrapped parser FAILS after running its children: contexts are values, so the model is the same *)
  | Sexp.L (Sexp.A "rawf" :: r) -> TRaw (kids r)
  | Sexp.L (Sexp.A "unrecf" :: r) -> TUnrec (kids r)
  | Sexp.L [Sexp.A "send"; n] -> TSend (nat_of_int (Sexp.int n))
  | Sexp.L [Sexp.A "apply"; n] -> TApply (nat_of_int (Sexp.int n))
  | _ -> failwith "ctx tree"

(* tags from the innermost Tagged outwards *)
let rec trail_of (e : err) : int list =
  match e with ETagged (t, e') -> trail_of e' @ [int_of_nat t] | _ -> []

let s_trail e = String.concat "" (List.map (fun t -> " " ^ string_of_int t) (trail_of e))

let s_event = function
  | EvSink (n, e) -> Printf.sprintf "(send %d sink%s)" (int_of_nat n) (s_trail e)
  | EvRet (n, e) -> Printf.sprintf "(send %d ret%s)" (int_of_nat n) (s_trail e)
  | EvApply (n, e) -> Printf.sprintf "(apply %d%s)" (int_of_nat n) (s_trail e)

let hop_of_sexp (x : Sexp.t) : hop =
  let n y = nat_of_int (Sexp.int y) in
  match x with
  | Sexp.L [Sexp.A "new"; i; s] -> HNew (n i, (match Sexp.atom s with "-" -> None | a -> Some (nat_of_int (int_of_string a))))
  | Sexp.L [Sexp.A "clone"; i; j] -> HClone (n i, n j)
  | Sexp.L [Sexp.A "pushed"; i; j; t] -> HPushed (n i, n j, n t)
  | Sexp.L [Sexp.A "push"; i; t] -> HPush (n i, n t)
  | Sexp.L [Sexp.A "locked"; i; b] -> HLocked (n i, Sexp.atom b = "T")
  | Sexp.L [Sexp.A "nosink"; i; j] -> HNoSink (n i, n j)
  | Sexp.L [Sexp.A "nolocal"; i; j] -> HNoLocal (n i, n j)
  | Sexp.L [Sexp.A "takesink"; i; k] -> HTakeSink (n i, n k)
  | Sexp.L [Sexp.A "replsink"; i; k] -> HReplSink (n i, n k)
  | Sexp.L [Sexp.A "takelocal"; i; l] -> HTakeLocal (n i, n l)
  | Sexp.L [Sexp.A "repllocal"; i; l] -> HReplLocal (n i, n l)
  | Sexp.L [Sexp.A "send"; i; m] -> HSend (n i, n m)
  | Sexp.L [Sexp.A "apply"; i; m] -> HApply (n i, n m)
  | _ -> failwith "hctx op"

let s_hevent = function
  | HvSink (n, sk, e) -> Printf.sprintf "(send %d sink%d%s)" (int_of_nat n) (int_of_nat sk) (s_trail e)
  | HvRet (n, e) -> Printf.sprintf "(send %d ret%s)" (int_of_nat n) (s_trail e)
  | HvApply (n, e) -> Printf.sprintf "(apply %d%s)" (int_of_nat n) (s_trail e)

let run_line (line : string) : string option =
  match Sexp.parse line with
  | Sexp.L (Sexp.A "hctx-case" :: Sexp.A id :: fields) ->
    let f k = Sexp.field fields k in
    let evs = hrun hinit (List.map hop_of_sexp (f "ops")) in
    Some ("(" ^ id ^ String.concat "" (List.map (fun e -> " " ^ s_hevent e) evs) ^ ")")
  | Sexp.L (Sexp.A "ctx-case" :: Sexp.A id :: fields) ->
    let f k = Sexp.field fields k in
    let sink = Sexp.atom (List.hd (f "sink")) = "1" in
    let evs = run_trees (ctx_new sink) (List.map tree_of_sexp (f "tree")) in
    Some ("(" ^ id ^ String.concat "" (List.map (fun e -> " " ^ s_event e) evs) ^ ")")
  | _ -> None
