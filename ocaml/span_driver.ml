(* Span-layer driver: runs the extracted model on span-cases (harness/FORMAT-span.md). *)
open Model
type string = String.t
open Common

let buf = Buffer.create 65536
let add = Buffer.add_string buf

type case = {
  m : metrics; off : pos; text : text; bases : pos list;
  pats : text list; classes : string list; ops : string list;
}

let spans_of (bases : pos list) : span list =
  let arr = Array.of_list bases in
  let n = Array.length arr in
  let acc = ref [] in
  for i = 0 to n - 1 do for j = i to n - 1 do acc := enclosing arr.(i) arr.(j) :: !acc done done;
  List.rev !acc

let s_optpos = s_res (s_opt s_pos)
let s_rpos = s_res s_pos

(* zero offset: ColumnMetrics value, then "=" or "!wrapper" *)
let both f (cm : 'a res) (st : 'a res) : string =
  let a = s_res f cm and b = s_res f st in
  if a = b then a ^ "=" else a ^ "!" ^ b

let nav_entry (zero : bool) (src : source) (c : case) (p : pos) : string =
  let m = c.m and t = c.text in
  let vals =
    if zero then [
      both (s_opt s_pos) (next_position m t p) (src_next_position src p);
      both (s_opt s_pos) (previous_position m t p) (src_previous_position src p);
      s_res s_bool (is_line_break m t p.byte);
      both s_pos (line_end_position m t p) (src_line_end_position src p);
      both s_pos (line_start_position m t p) (src_line_start_position src p);
      both (s_opt s_pos) (previous_line_end_position m t p) (src_previous_line_end_position src p);
      both (s_opt s_pos) (next_line_start_position m t p) (src_next_line_start_position src p);
      s_rpos (start_position m t p);
      s_rpos (end_position m t p) ]
    else [
      s_optpos (src_next_position src p);
      s_optpos (src_previous_position src p);
      s_res s_bool (src_is_line_break src p.byte);
      s_rpos (src_line_end_position src p);
      s_rpos (src_line_start_position src p);
      s_optpos (src_previous_line_end_position src p);
      s_optpos (src_next_line_start_position src p);
      "."; "." ] in
  "(" ^ s_pos p ^ " " ^ String.concat " " vals ^ ")"

let nav_group zero src c bases =
  "(nav" ^ String.concat "" (List.map (fun p -> " " ^ nav_entry zero src c p) bases) ^ ")"

let lines_entry (src : source) (s : span) : string =
  let widen = s_res s_span (widen_to_line s src) in
  let pieces = ref [] and lens = ref [] in
  let it = ref (split_lines_of s src) in
  let continue = ref true and count = ref 0 in
  while !continue do
    lens := s_res (fun n -> string_of_int (int_of_nat n)) (sl_len !it) :: !lens;
    (match sl_next !it with
     | Ok (Some sp, it') -> pieces := s_span sp :: !pieces; it := it'; incr count;
       if !count >= 64 then continue := false
     | Ok (None, it') -> it := it';
       lens := s_res (fun n -> string_of_int (int_of_nat n)) (sl_len !it) :: !lens;
       continue := false
     | Panic -> pieces := "PANIC" :: !pieces; continue := false
     | Fuel -> pieces := "FUEL" :: !pieces; continue := false)
  done;
  let sp l = String.concat "" (List.map (fun x -> " " ^ x) (List.rev l)) in
  "(" ^ s_span s ^ " " ^ widen ^ " (split" ^ sp !pieces ^ ") (lens" ^ sp !lens ^ "))"

let lines_group src spans =
  "(lines" ^ String.concat "" (List.map (fun s -> " " ^ lines_entry src s) spans) ^ ")"

let run_case (id : string) (c : case) : unit =
  let zero = (c.off = mkpos 0 0 0) in
  let src = { stext = c.text; sname = None; smet = c.m; soff = c.off } in
  let spans = spans_of c.bases in
  add "("; add id;
  List.iter (fun op ->
    add " ";
    match op with
    | "nav" -> add (nav_group zero src c c.bases)
    | "pat" ->
      add "(pat";
      List.iter (fun p ->
        add " ("; add (s_pos p);
        List.iter (fun pat ->
          add " ";
          add (if zero then both (s_opt s_pos) (position_after_str c.m c.text p pat) (src_position_after_str src p pat)
               else s_optpos (src_position_after_str src p pat))) c.pats;
        add ")") c.bases;
      add ")"
    | "cls" ->
      add "(cls";
      List.iter (fun p ->
        add " ("; add (s_pos p);
        List.iter (fun cl ->
          let f = class_pred cl in
          add " ";
          add (if zero then both (s_opt s_pos) (position_after_chars_matching c.m c.text p f) (src_position_after_chars_matching src p f)
               else s_optpos (src_position_after_chars_matching src p f));
          add " ";
          add (if zero then both (s_opt s_pos) (next_position_after_chars_matching c.m c.text p f) (src_next_position_after_chars_matching src p f)
               else s_optpos (src_next_position_after_chars_matching src p f))) c.classes;
        add ")") c.bases;
      add ")"
    | "alg" ->
      add "(alg";
      List.iter (fun a ->
        List.iter (fun b ->
          add " ("; add (s_span a); add " "; add (s_span b); add " ";
          add (s_span (enclose a b)); add " ";
          add (s_few (union a b)); add " ";
          add (s_opt s_span (intersect a b)); add " ";
          add (s_few (minus a b)); add " ";
          add (s_bool (intersects a b)); add " ";
          add (s_bool (adjacent a b)); add ")") spans) spans;
      List.iter (fun a ->
        add " (cont "; add (s_span a);
        List.iter (fun p -> add " "; add (s_bool (contains a p))) c.bases;
        add ")") spans;
      add ")"
    | "lines" -> add (lines_group src spans)
    | "win" ->
      add "(win";
      List.iter (fun w ->
        add " (";
        add (s_span w);
        (match clipped src w with
         | Panic -> add " PANIC"
         | Fuel -> add " FUEL"
         | Ok ws ->
           let s = int_of_nat w.sstart.byte - int_of_nat c.off.byte in
           add (Printf.sprintf " %d..%d " s (s + int_of_nat (blen ws.stext)));
           add (s_pos (src_start_position ws)); add " ";
           add (s_rpos (src_end_position ws)); add " ";
           add (s_res s_span (full_span ws)); add " T ";
           let inside = List.filter (fun p ->
             int_of_nat w.sstart.byte <= int_of_nat p.byte && int_of_nat p.byte <= int_of_nat w.send.byte) c.bases in
           add (nav_group false ws c inside); add " ";
           add (lines_group ws (spans_of inside)));
        add ")") spans;
      add ")"
    | _ -> failwith ("unknown op " ^ op)) c.ops;
  add ")\n"

let parse_case (line : string) : string * case =
  match Sexp.parse line with
  | Sexp.L (Sexp.A "span-case" :: Sexp.A id :: fields) ->
    let f k = Sexp.field fields k in
    let m = { le = le_of_string (Sexp.atom (List.hd (f "le"))); tabw = nat_of_int (Sexp.int (List.hd (f "tab"))) } in
    let off = pos_of_sexp (Sexp.L (f "off")) in
    id, { m; off; text = text_of_sexps (f "text"); bases = List.map pos_of_sexp (f "bases");
          pats = List.map (fun p -> text_of_sexps (Sexp.list p)) (f "pats");
          classes = List.map Sexp.atom (f "classes"); ops = List.map Sexp.atom (f "ops") }
  | _ -> failwith "span-case expected"

let main file =
  let ic = open_in file in
  (try
     while true do
       let line = input_line ic in
       if String.length line > 0 then begin
         (* a case the driver cannot read or run must not take the rest of its shard with it *)
         (try
            let id, c = parse_case line in
            let mark = Buffer.length buf in
            (try run_case id c
             with Stack_overflow -> Buffer.truncate buf mark; Buffer.add_string buf "(MODEL-ERROR stack-overflow)\n"
                | Failure m -> Buffer.truncate buf mark; Buffer.add_string buf ("(MODEL-ERROR failure " ^ String.escaped m ^ ")\n"))
          with Failure m -> Buffer.add_string buf ("(MODEL-ERROR failure " ^ String.escaped m ^ ")\n")
             | Stack_overflow -> Buffer.add_string buf "(MODEL-ERROR stack-overflow)\n"
             | Not_found -> Buffer.add_string buf "(MODEL-ERROR not-found)\n");
         if Buffer.length buf > 60000 then (print_string (Buffer.contents buf); Buffer.clear buf)
       end
     done
   with End_of_file -> ());
  print_string (Buffer.contents buf)
