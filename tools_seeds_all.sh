#!/bin/sh
# usage: tools_seeds_all.sh  — re-run every stored seeded change against the property it was written for
# (first property named in how_to_rerun). Prints one line per seed: CAUGHT / MISSED. /repo must be clean.
cd "$(dirname "$0")"
for d in seeded/C*; do
  id=$(basename "$d"); prop=$(echo "$id" | cut -c1-3)
  [ -f "$d/patch.diff" ] || continue
  git -C /repo apply "$PWD/$d/patch.diff" 2>/dev/null || { echo "$id: patch does not apply"; continue; }
  log=$(timeout 1500 ./check "$prop" --tier quick 2>&1)
  out=$(echo "$log" | grep -c "^VIOLATION")
  git -C /repo checkout -- .
  kinds=$(echo "$log" | grep -o "violations ([^)]*)" | head -1)
  nf=$(echo "$log" | grep "^VIOLATION" | grep -c "no-failing-input-found")
  if [ "$out" -ge 1 ]; then echo "$id: CAUGHT by $prop  $kinds $([ "$nf" -ge 1 ] && echo '[no-failing-input-found]')"; else echo "$id: MISSED by $prop"; fi
done
git checkout -q -- evidence 2>/dev/null    # the runs above rewrote the evidence files on a patched tree: restore the committed ones
git -C /repo status --short | head -3
