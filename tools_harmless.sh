#!/bin/sh
# usage: tools_harmless.sh [tier]  — apply the stored behaviour-preserving refactorings to /repo (all of harmless/*.diff at once,
# then all of harmless2/*.diff at once: the two sets touch the same functions) and run every property check on each:
# no check may print VIOLATION. /repo must be clean; it is restored afterwards.
cd "$(dirname "$0")"
tier=${1:-quick}
[ -z "$(git -C /repo status --short)" ] || { echo "/repo is not clean"; exit 2; }
bad=0
for set in harmless harmless2; do
  for p in $set/*.diff; do git -C /repo apply "$PWD/$p" || { echo "$p does not apply"; git -C /repo checkout -- .; exit 2; }; done
  echo "== $set applied"
  for id in C01 C02 C03 C04 C05 C06 C07 C08 C09 C10 C11 C12 C13 C14 C15 C16 C17 C18 C19 C20; do
    out=$(./check $id --tier $tier 2>&1); n=$(echo "$out" | grep -c "^VIOLATION")
    echo "$out" | tail -1
    [ "$n" -ge 1 ] && { bad=1; echo "$out" | grep "^VIOLATION"; }
  done
  git -C /repo checkout -- .
done
git checkout -q -- evidence 2>/dev/null    # evidence written on the patched tree is not kept
[ $bad = 0 ] && echo "harmless: no alarm" || echo "harmless: ALARM"
exit $bad
