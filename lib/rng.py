"""splitmix64: every random choice of a check derives from one seed."""
MASK = (1 << 64) - 1

class Rng:
    def __init__(self, seed):
        self.s = seed & MASK
    def next(self):
        self.s = (self.s + 0x9E3779B97F4A7C15) & MASK
        z = self.s
        z = ((z ^ (z >> 30)) * 0xBF58476D1CE4E5B9) & MASK
        z = ((z ^ (z >> 27)) * 0x94D049BB133111EB) & MASK
        return z ^ (z >> 31)
    def below(self, n):
        return self.next() % n if n > 0 else 0
    def choice(self, xs):
        return xs[self.below(len(xs))]
    def chance(self, num, den):
        return self.below(den) < num
    def fork(self, tag):
        h = 1469598103934665603
        for ch in str(tag).encode():
            h = ((h ^ ch) * 1099511628211) & MASK
        return Rng(self.s ^ h)
