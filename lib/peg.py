"""Reference semantics (python) for the combinator properties: ordered-choice (PEG) evaluation
over the *sequential token list* of a text. This is the executable reading of the properties'
statements, independent of the lexer's buffering: a state is an index into the token list, the
current filter and a 'fresh' flag (nothing delivered since the start / the last sub-lex mark:
tokens rejected by the current filter are dropped there, the documented behaviour of `sub`).

Values are S-expression trees in the harness' printing convention, so they compare directly."""
from . import lexsim

class Fail(Exception):
    def __init__(self, why=''):
        self.why = why

class NotCovered(Exception):
    """grammar outside the fragment this reference covers"""

class St:
    # sk: token indices skipped EAGERLY (at a parse start) since the last delivery - an advance-only lexer still stands in
    # front of them, so a filter change that makes one of them deliverable exposes the recorded C05 finding
    # buf: is a look-ahead token buffered? True / False, or None when the reference does not know (behind combinators whose
    # look-ahead behaviour it does not follow: lists, brackets, recovery). A sub-parse mark skips the filtered tokens in front
    # of it only when NO look-ahead is buffered (lexer.rs buffer_next returns at once otherwise).
    __slots__ = ('i', 'flt', 'fresh', 'sk', 'buf')
    def __init__(self, i, flt, fresh, sk=frozenset(), buf=None):
        self.i, self.flt, self.fresh, self.sk, self.buf = i, flt, fresh, sk, buf
    def copy(self):
        return St(self.i, self.flt, self.fresh, self.sk, self.buf)

class Peg:
    def __init__(self, toks, complete, sink=False, sub_skip=True):
        self.sub_skip = sub_skip    # does a sub-lex mark drop the filtered tokens in front of it? (the real lexer does so
                                    # unless a look-ahead is buffered: the recorded C05 finding seen through `sub`)
        self.toks = toks            # sequential unfiltered tokens (lexsim.scan_all)
        self.complete = complete    # True iff the scanner accepts the whole text
        self.sink = sink            # is an error sink installed?
        self.emitted = 0            # errors the reference expects in the sink so far
        self.stale = set()          # recover_after objects whose recovery token ended the stream (known finding)
        self.known = None
        self.lost_met = False       # a filter change made an eagerly skipped token deliverable again (it stays lost)
        self.unknown_used = False   # a sub-parse mark was met with an unknown look-ahead state (sub_skip decided)
        self.last_consumed = None

    def complete_tail_ok(self):
        return True

    def deliverable(self, s, lo, hi):
        return [j for j in range(lo, hi) if lexsim.keeps(s.flt, self.toks[j]['kind'])]

    # ---- token stream helpers ----
    def norm(self, s):
        if s.fresh:
            while s.i < len(self.toks) and not lexsim.keeps(s.flt, self.toks[s.i]['kind']):
                s.sk = s.sk | {s.i}
                s.i += 1
        return s
    def first(self, s):
        j = s.i
        while j < len(self.toks) and not lexsim.keeps(s.flt, self.toks[j]['kind']):
            j += 1
        return j if j < len(self.toks) else None
    def take(self, s):
        j = self.first(s)
        if j is None:
            raise Fail('end')
        s.i = j + 1
        s.fresh = False
        s.buf = False
        s.sk = frozenset()
        self.last_consumed = j
        return self.toks[j], j
    def rest(self, s):
        out = []
        j = s.i
        while j < len(self.toks):
            if lexsim.keeps(s.flt, self.toks[j]['kind']):
                out.append(self.toks[j]['tok'])
            j += 1
        return out
    def peeked(self, s):
        """Lexer::peek / buffer_next: nothing happens when a look-ahead is buffered; otherwise the eager skip (at a parse
        start) and the next deliverable token, if any, is buffered"""
        if s.buf:
            return
        if s.buf is None and s.fresh:
            self.unknown_used = True
        self.norm(s)
        s.buf = self.first(s) is not None
    def set_filter(self, s, f):
        if any(lexsim.keeps(f, self.toks[k]['kind']) for k in s.sk):
            self.lost_met = True
        s.flt = f
        s.buf = False               # set_filter drops the look-ahead, then buffers again under the new filter
        self.peeked(s)

    # ---- evaluation: returns (value, state); raises Fail ----
    def ev_nosink(self, g, s):
        old = self.sink
        self.sink = False
        try:
            return self.ev(g, s)
        finally:
            self.sink = old

    def ev(self, g, s):
        if g == 'empty':
            return 'unit', s
        if g == 'eot':
            if self.first(s) is None and self.complete:
                s = s.copy(); self.peeked(s)        # end_of_text looks ahead (eager skip at a parse start)
                return 'unit', s
            raise Fail('eot')
        if g == 'userfail':
            raise Fail('user')
        k = g[0]
        if k == 'one':
            s = s.copy(); t, _ = self.take(s)
            if t['kind'] != g[1] or t['n'] != 0: raise Fail('one')
            return ['tok', t['tok']], s
        if k in ('any', 'anyidx'):
            s = s.copy(); t, _ = self.take(s)
            if t['kind'] not in g[1:] or t['n'] != 0: raise Fail('any')
            return (['tok', t['tok']] if k == 'any' else ['nat', str(g[1:].index(t['kind']))]), s
        if k == 'seq':
            s = s.copy(); vals = []
            for kk in g[1:]:
                t, _ = self.take(s)
                if t['kind'] != kk: raise Fail('seq')
                vals.append(['tok', t['tok']])
            return ['list'] + vals, s
        if k == 'seqcount':
            s = s.copy(); n = 0
            for kk in g[1:]:
                j = self.first(s)
                if j is None:
                    if not self.complete: raise Fail('unrecognized')
                    self.peeked(s)
                    break
                if self.toks[j]['kind'] != kk:
                    self.peeked(s)          # seq_count looks at the mismatching token and leaves it buffered
                    break
                self.take(s); n += 1
            return ['nat', str(n)], s
        if k == 'pred':
            s = s.copy(); t, _ = self.take(s)
            if not self.peval(g[1], t): raise Fail('pred')
            return ['tok', t['tok']], s
        if k == 'both':
            a, s1 = self.ev(g[1], s); b, s2 = self.ev(g[2], s1)
            return ['pair', a, b], s2
        if k == 'left':
            a, s1 = self.ev(g[1], s); _, s2 = self.ev(g[2], s1)
            return a, s2
        if k == 'right':
            _, s1 = self.ev(g[1], s); b, s2 = self.ev(g[2], s1)
            return b, s2
        if k == 'center':
            _, s1 = self.ev(g[1], s); b, s2 = self.ev(g[2], s1); _, s3 = self.ev(g[3], s2)
            return b, s3
        if k == 'map':
            v, s1 = self.ev(g[2], s); return ['tag', g[1], v], s1
        if k == 'discard':
            _, s1 = self.ev(g[1], s); return 'unit', s1
        if k == 'sub':
            s = s.copy()
            if s.buf is None:
                # unknown look-ahead state: the caller's reading decides (and is told)
                self.unknown_used = True
                if self.sub_skip:
                    s.fresh = True; self.norm(s)
            elif s.buf:
                s.fresh = True              # start_sublex with a look-ahead buffered: a parse start, nothing skipped
            else:
                s.fresh = True; self.norm(s); s.buf = self.first(s) is not None
            return self.ev(g[1], s)
        if k == 'either':
            try:
                return self.ev(g[1], s)
            except Fail:
                return self.ev(g[2], s)
        if k == 'maybe':
            # control.rs maybe = unrecoverable(parser): the wrapped parser runs WITHOUT the sink
            try:
                v, s1 = self.ev_nosink(g[1], s); return ['some', v], s1
            except Fail:
                return ['none'], s
        if k == 'reqif':
            if g[1] == 'T':
                v, s1 = self.ev(g[2], s); return ['some', v], s1
            return self.ev(['maybe', g[2]], s)
        if k == 'cond':
            if g[1] == 'T':
                v, s1 = self.ev(g[2], s); return ['some', v], s1
            return ['none'], s
        if k in ('implies', 'antecedent', 'consequent'):
            try:
                l, s1 = self.ev_nosink(g[1], s)          # the antecedent is an optional parse: no sink
            except Fail:
                return ['none'], s
            r, s2 = self.ev(g[2], s1)
            return ['some', ['pair', l, r] if k == 'implies' else (l if k == 'antecedent' else r)], s2
        if k == 'condimplies':
            try:
                l, s1 = self.ev_nosink(g[1], s)
            except Fail:
                return ['none'], s
            if self.vpeval(g[2], l):
                r, s2 = self.ev(g[3], s1); return ['some', ['pair', l, ['some', r]]], s2
            return ['some', ['pair', l, ['none']]], s1
        if k in ('filterwith', 'unfiltered'):
            s1 = s.copy(); old = s1.flt
            self.set_filter(s1, None if k == 'unfiltered' else g[1])
            v, s2 = self.ev(g[-1], s1)
            s2 = s2.copy(); self.set_filter(s2, old)
            return v, s2
        if k == 'unrec':
            return self.ev_nosink(g[-1], s)
        if k in ('raw', 'ctxpush'):
            return self.ev(g[-1], s)
        if k == 'stabilize':
            try:
                return self.ev(g[1], s)
            except Fail:
                # what a failing stabilised parser does depends on a recover state left on the lexer
                raise NotCovered('stabilize retry')
        if k == 'probe':
            return 'unit', s
        # ---- captures (C14): span / text of the tokens the wrapped parser consumed ----
        if k in ('text', 'spanned'):
            s = s.copy(); self.peeked(s)        # the capture looks ahead for its start before the wrapped parser runs
            v, s1 = self.ev(g[1], s)
            cons = self.deliverable(s, s.i, s1.i)
            if cons:
                a, b = self.toks[cons[0]]['start'], self.toks[cons[-1]]['end']
                if k == 'text':
                    return ['text', str(a[0]), str(b[0])], s1
                return ['spanned', lexsim.fmt_pos(a) + '~' + lexsim.fmt_pos(b), v], s1
            return [k, 'EMPTY', v], s1
        # ---- brackets (C10): reference stack matcher over the deliverable stream ----
        if k in ('bracket', 'bracketdef', 'bracketidx', 'bracketdefidx'):
            os_, inner, cs, ab = g[1], g[2], g[3], g[4]
            stack = []
            first_open = None
            res = None
            for j in self.deliverable(s, s.i, len(self.toks)):
                kd = self.toks[j]['kind']
                if kd in cs:
                    if not stack:
                        raise Fail('bracket:unopened:%d' % j)
                    if stack[-1][0] != cs.index(kd):
                        raise Fail('bracket:mismatch:%d:%d' % (stack[-1][1], j))
                    stack.pop()
                    if not stack:
                        res = (first_open, j, cs.index(kd)); break
                elif kd in os_:
                    stack.append((os_.index(kd), j))
                    if first_open is None:
                        first_open = j
                elif kd in ab and first_open is None:
                    raise Fail('bracket:none:%d' % j)
            if res is None:
                raise Fail('bracket:none:start' if first_open is None else 'bracket:unclosed:%d' % first_open)
            o, c, idx = res
            si = St(o + 1, s.flt, True); self.norm(si)
            after = St(c + 1, s.flt, False)
            try:
                v, _ = self.ev(inner, si)
                ok = True
            except Fail:
                if not self.sink:
                    raise
                self.emitted += 1
                ok = False
            if k == 'bracket': val = ['some', v] if ok else ['none']
            elif k == 'bracketdef': val = v if ok else 'dflt'
            elif k == 'bracketidx': val = ['pair', ['some', v] if ok else ['none'], ['nat', str(idx)]]
            else: val = ['pair', v if ok else 'dflt', ['nat', str(idx)]]
            return val, after
        # ---- recovery (C12) ----
        if k in ('recover', 'recoverdef', 'recoverdelayed', 'recoverdefdelayed'):
            rs, a = g[1], g[2]
            if id(g) in self.stale:
                self.known = 'stale-after-flag'
            try:
                v, s1 = self.ev(a, s)
                return (['some', v] if k in ('recover', 'recoverdelayed') else v), s1
            except Fail:
                if not self.sink:
                    raise
            self.emitted += 1
            kinds = rs[1:]
            prev = None
            for j in self.deliverable(s, s.i, len(self.toks)):
                if self.toks[j]['kind'] in kinds:
                    if rs[0] in ('before', 'beforeany'):
                        # the scan stops IN FRONT of the recovery token: the cursor stands behind the last token it consumed
                        # (tokens the current filter hides between that token and the recovery token are not consumed - they
                        # reappear if an enclosing filter_with / unfiltered restores a wider filter)
                        s2 = s.copy() if prev is None else St(prev + 1, s.flt, False)
                        s2.buf = None
                        return (['none'] if k in ('recover', 'recoverdelayed') else 'dflt'), s2
                    # after: the next token is the one following the recovery token; there must be one
                    s2 = St(j + 1, s.flt, False)
                    if self.first(s2) is None:
                        self.stale.add(id(g))
                        raise Fail('recover')
                    return (['none'] if k in ('recover', 'recoverdelayed') else 'dflt'), s2
                prev = j
            raise Fail('recover')
        # ---- delimited lists (C11): segment by segment ----
        if k in ('list', 'listb', 'listdef', 'listbdef'):
            if k in ('list', 'listdef'):
                lo, hi, item, sep, ab = 0, None, g[1], g[2], g[3]
            else:
                lo, hi, item, sep, ab = int(g[1]), (None if g[2] == 'inf' else int(g[2])), g[3], g[4], g[5]
            opt = k in ('list', 'listb')
            if hi == 0:
                return ['list'], s
            D = self.deliverable(s, s.i, len(self.toks))
            body = []
            abort_at = None
            for j in D:
                if self.toks[j]['kind'] in ab:
                    abort_at = j; break
                body.append(j)
            # split at separators: segments as lists of token indices, with the index of the delimiter that ends each
            segs, cur = [], []
            for j in body:
                if self.toks[j]['kind'] == sep:
                    segs.append((cur, j)); cur = []
                else:
                    cur.append(j)
            end_delim = abort_at          # None = end of text
            if body:
                segs.append((cur, end_delim))
                if not cur and len(segs) >= 1 and (len(segs) > 1):
                    segs.pop()            # one trailing empty segment is dropped
            vals = []
            bounds = []
            prev_delim = None
            final = St(abort_at if abort_at is not None else len(self.toks), s.flt, False)
            if not body:
                final = St(abort_at if abort_at is not None else s.i, s.flt, s.fresh)
            for n_, (seg, delim) in enumerate(segs):
                start_i = seg[0] if seg else (delim if delim is not None else len(self.toks))
                st0 = St(start_i, s.flt, False)
                ok = False
                try:
                    if seg:
                        v, s1 = self.ev(item, st0)
                        nxt = self.first(s1)
                        want = delim
                        ok = (nxt == want) if want is not None else (nxt is None or nxt == want)
                        if want is None:
                            ok = nxt is None
                        ok = ok and s1.i > seg[-1]
                except Fail:
                    ok = False
                if ok:
                    vals.append(['some', v] if opt else v)
                else:
                    if not self.sink:
                        raise Fail('list-item')
                    self.emitted += 1
                    lo_b = self.toks[prev_delim]['start'][0] if prev_delim is not None else (self.toks[D[0]]['start'][0] if D else 0)
                    hi_b = self.toks[delim]['end'][0] if delim is not None else None      # None: the end of the text
                    bounds.append((lo_b, hi_b))
                    if delim is None and not self.complete_tail_ok():
                        pass
                    vals.append(['none'] if opt else 'dflt')
                prev_delim = delim
                if hi is not None and len(vals) >= hi:
                    # the upper bound stops the list: later segments stay unconsumed
                    final = St(delim if delim is not None else len(self.toks), s.flt, False)
                    break
            self.list_bounds = getattr(self, 'list_bounds', []) + bounds
            if len(vals) < lo:
                if not self.sink:
                    raise Fail('count')
                self.emitted += 1
            return ['list'] + vals, final
        # ---- repetition (C07): greedy single loop ----
        if k in ('repeat', 'repeatcount', 'intersperse', 'interspersecount', 'interspersedef',
                 'repeatuntil', 'repeatcountuntil', 'intersperseuntil', 'interspersecountuntil'):
            lo = int(g[1]); hi = None if g[2] == 'inf' else int(g[2])
            until = 'until' in k
            stop = g[3] if until else None
            item = g[4] if until else g[3]
            if k in ('repeat', 'repeatcount', 'repeatuntil', 'repeatcountuntil'):
                sep = 'empty'
            elif k == 'interspersedef':
                sep = ['one', g[4]]
            else:
                sep = g[5] if until else g[4]
            vals = []
            cur = s
            by_stop = False
            while hi is None or len(vals) < hi:
                if stop is not None:
                    try:
                        self.ev(stop, cur); by_stop = True; break
                    except Fail:
                        pass
                try:
                    if vals:
                        _, s1 = self.ev(sep, cur)
                    else:
                        s1 = cur
                    v, s2 = self.ev(item, s1)
                except Fail:
                    break
                if s2.i == cur.i and hi is None:
                    raise NotCovered('nullable repetition body')
                vals.append(v); cur = s2
            if len(vals) < lo and not by_stop:
                raise Fail('too few')
            if 'count' in k:
                return ['nat', str(len(vals))], cur
            return ['list'] + vals, cur
        raise NotCovered(k)

    def peval(self, pe, t):
        if pe[0] == 'is': return t['kind'] == pe[1] and t['n'] == 0
        if pe[0] == 'not': return not self.peval(pe[1], t)
        if pe[0] == 'and': return self.peval(pe[1], t) and self.peval(pe[2], t)
        if pe[0] == 'or': return self.peval(pe[1], t) or self.peval(pe[2], t)
        raise NotCovered('pexpr')

    def vpeval(self, vp, v):
        if vp == 'always': return True
        if vp == 'never': return False
        if vp[0] == 'istok': return isinstance(v, list) and v[0] == 'tok' and v[1].split('/')[0] == vp[1]
        raise NotCovered('vpred')


def reference(text, le, tab, scanner, flt, g, sink=False, runs=1, sub_skip=True):
    """list of per-run results: ('ok', value, rest-tokens, flt_is_some, emitted) | ('fail', why, emitted) |
    ('notcovered', why); evaluation stops after the first failure"""
    toks = lexsim.scan_all(text, le, tab, scanner)
    complete = 'bang' not in text
    p = Peg(toks, complete, sink, sub_skip)
    s = St(0, flt, True)
    p.norm(s)
    s.buf = p.first(s) is not None          # Lexer::new(..).with_filter(..): set_filter + buffer_next
    out = []
    for _ in range(runs):
        try:
            v, s1 = p.ev(g, s)
        except Fail as e:
            out.append(('fail', e.why, p.emitted)); break
        except NotCovered as e:
            out.append(('notcovered', str(e))); break
        out.append(('ok', v, p.rest(s1), s1.flt is not None, p.emitted))
        s = s1
    reference.known = p.known
    reference.lost_met = p.lost_met
    reference.unknown_used = p.unknown_used
    reference.list_bounds = getattr(p, 'list_bounds', [])
    return out
