"""Orchestration shared by all property checks: proof side, builds, sharded runs of the
extracted model and of the Rust harness, comparison, search, replay files, evidence."""
import glob
import hashlib
import json
import os
import re
import subprocess
import sys
import time

from . import sexp

VERIF = os.path.dirname(os.path.dirname(os.path.abspath(__file__)))
REPO = os.environ.get('TEPHRA_REPO', '/repo')
WORK = os.path.join(VERIF, 'work')
COQ = os.path.join(VERIF, 'coq')
OCAML = os.path.join(VERIF, 'ocaml')
HARNESS = os.path.join(VERIF, 'harness')
TARGET = os.path.join(HARNESS, 'target')
NPROC = 16

FORBIDDEN = re.compile(
    r'\b(Admitted|admit|Axiom|Axioms|Parameter|Parameters|Conjecture|Admit Obligations|bypass_check|'
    r'Unset Guard Checking|Unset Positivity Checking|Unset Universe Checking)\b|type-in-type|impredicative-set')

# Axioms a property theorem may depend on (standard-library axioms only, by name). Empty
# means every theorem must be "Closed under the global context".
AXIOM_ALLOWLIST = set()

ENV = dict(os.environ, CARGO_NET_OFFLINE='true', CARGO_TARGET_DIR=TARGET)


def sh(cmd, cwd=None, timeout=1800, env=None):
    t0 = time.time()
    p = subprocess.run(cmd, shell=isinstance(cmd, str), cwd=cwd, stdout=subprocess.PIPE,
                       stderr=subprocess.STDOUT, timeout=timeout, env=env or ENV)
    return p.returncode, p.stdout.decode('utf-8', 'replace'), time.time() - t0


# ----------------------------------------------------------------------------------------
# Proof side
# ----------------------------------------------------------------------------------------

def coq_sources():
    return sorted(glob.glob(os.path.join(COQ, 'theories', '*.v')) +
                  glob.glob(os.path.join(COQ, 'properties', '*.v')) +
                  [os.path.join(OCAML, 'Extract.v')])


def strip_coq_comments(src):
    out = []
    depth = 0
    i = 0
    while i < len(src):
        if src.startswith('(*', i):
            depth += 1; i += 2
        elif src.startswith('*)', i) and depth > 0:
            depth -= 1; i += 2
        else:
            if depth == 0:
                out.append(src[i])
            i += 1
    return ''.join(out)


def forbidden_scan():
    hits = []
    for f in coq_sources():
        src = strip_coq_comments(open(f).read())
        for n, line in enumerate(src.split('\n'), 1):
            m = FORBIDDEN.search(line)
            if m:
                hits.append('%s: %s' % (os.path.relpath(f, VERIF), m.group(0)))
        # a Variable / Hypothesis outside every Section declares an axiom
        stack = []
        for n, line in enumerate(src.split('\n'), 1):
            if re.match(r'\s*Section\s+\w+', line): stack.append('S')
            elif re.match(r'\s*Module\s+(Type\s+)?\w+\s*\.', line): stack.append('M')
            elif re.match(r'\s*End\s+\w+\s*\.', line) and stack: stack.pop()
            elif re.match(r'\s*(Variable|Variables|Hypothesis|Hypotheses)\b', line) and 'S' not in stack:
                hits.append('%s:%d: %s outside a section' % (os.path.relpath(f, VERIF), n, line.strip()[:40]))
    for f in [os.path.join(COQ, '_CoqProject')]:
        if os.path.exists(f) and re.search(r'type-in-type|impredicative-set|-vos|-vok', open(f).read()):
            hits.append('_CoqProject: forbidden flag')
    return hits


def ensure_makefile():
    mk = os.path.join(COQ, 'Makefile')
    cp = os.path.join(COQ, '_CoqProject')
    if not os.path.exists(mk) or os.path.getmtime(mk) < os.path.getmtime(cp):
        sh('coq_makefile -f _CoqProject -o Makefile', cwd=COQ)


def build_theories(timeout=1500):
    """Full .vo build of everything in _CoqProject (a no-op when up to date). -k: one broken
    property file does not take the others down."""
    ensure_makefile()
    rc, out, dt = sh('timeout %d make -k -j%d' % (timeout, NPROC), cwd=COQ, timeout=timeout + 30)
    return rc, out, dt


def proof_side(prop, tier='quick'):
    """Returns dict: obligations, discharged, theorems [(name, assumptions)], ok, problems."""
    problems = []
    hits = forbidden_scan()
    if hits:
        problems.append('forbidden constructs: ' + '; '.join(hits[:5]))
    rc, out, dt = build_theories()
    pfile = os.path.join(COQ, 'properties', prop + '.v')
    res = {'obligations': 0, 'discharged': 0, 'theorems': [], 'problems': problems, 'build_s': dt}
    if not os.path.exists(pfile):
        problems.append('no properties/%s.v' % prop)
        res['ok'] = False
        return res
    src = strip_coq_comments(open(pfile).read())
    names = re.findall(r'\b(?:Theorem|Example)\s+([A-Za-z0-9_\']+)', src)
    res['obligations'] = len(names)
    # the property file holds only Theorem / Proof. exact … Qed. / Print Assumptions
    body = re.sub(r'\s+', ' ', src)
    for nm in names:
        if not re.search(r'Print Assumptions %s\b' % re.escape(nm), body):
            problems.append('no Print Assumptions for ' + nm)
    rc2, out2, _ = sh('timeout 600 coqc -Q theories Tephra -Q properties TephraProps properties/%s.v' % prop,
                      cwd=COQ, timeout=630)
    if rc2 != 0:
        problems.append('properties/%s.v does not compile: %s' % (prop, out2.strip()[-400:]))
        res['ok'] = False
        res['failed_theorem'] = first_failed_theorem(out2, pfile, names)
        return res
    # parse Print Assumptions blocks, in order
    blocks = re.split(r'(?=Closed under the global context|Axioms:)', out2)
    verdicts = [b for b in blocks if b.startswith('Closed under') or b.startswith('Axioms:')]
    if len(verdicts) != len(names):
        problems.append('expected %d Print Assumptions outputs, got %d' % (len(names), len(verdicts)))
    for nm, v in zip(names, verdicts):
        if v.startswith('Closed under'):
            res['theorems'].append((nm, []))
            res['discharged'] += 1
        else:
            axs = re.findall(r'^([A-Za-z0-9_\.\']+)\s*:', v[len('Axioms:'):], flags=re.M)
            res['theorems'].append((nm, axs))
            bad = [a for a in axs if a not in AXIOM_ALLOWLIST]
            if bad:
                problems.append('%s depends on axioms outside the allow-list: %s' % (nm, ', '.join(bad)))
            else:
                res['discharged'] += 1
    # thorough tier: the independent checker re-checks the compiled property module and everything it depends on
    if tier == 'thorough' and not problems:
        rc3, out3, dt3 = sh('timeout 1500 coqchk -o -silent -Q theories Tephra -Q properties TephraProps TephraProps.%s' % prop,
                            cwd=COQ, timeout=1530)
        res['coqchk_s'] = dt3
        m = re.search(r'\* Axioms:(.*?)\n\s*\n\* Constants/Inductives relying on type-in-type:(.*?)\n\s*\n'
                      r'\* Constants/Inductives relying on unsafe \(co\)fixpoints:(.*?)\n\s*\n'
                      r'\* Inductives whose positivity is assumed:(.*?)\n', out3, flags=re.S)
        if rc3 != 0 or not m:
            problems.append('coqchk failed: ' + out3.strip()[-300:])
        else:
            fields = [x.strip() for x in m.groups()]
            res['coqchk'] = {'axioms': fields[0], 'type_in_type': fields[1], 'unsafe_fix': fields[2], 'assumed_positive': fields[3]}
            axs = [a for a in re.split(r'\s+', fields[0]) if a and a != '<none>']
            bad = [a for a in axs if a not in AXIOM_ALLOWLIST]
            if bad or any(f != '<none>' for f in fields[1:]):
                problems.append('coqchk reports assumptions: %s' % res['coqchk'])
    res['ok'] = not problems and res['obligations'] > 0 and res['discharged'] == res['obligations']
    return res


def first_failed_theorem(out, pfile, names):
    m = re.search(r'line (\d+)', out)
    if not m:
        return names[0] if names else None
    ln = int(m.group(1))
    last = None
    for n, line in enumerate(open(pfile).read().split('\n'), 1):
        mm = re.match(r'\s*(?:Theorem|Example)\s+([A-Za-z0-9_\']+)', line)
        if mm and n <= ln:
            last = mm.group(1)
    return last


# ----------------------------------------------------------------------------------------
# Builds of the executable sides
# ----------------------------------------------------------------------------------------

def newest(paths):
    return max([os.path.getmtime(p) for p in paths if os.path.exists(p)] or [0])


def build_driver(force=False):
    """Extraction + ocamlopt of the model driver; rebuilt when any .v or .ml is newer."""
    drv = os.path.join(OCAML, 'driver')
    srcs = glob.glob(os.path.join(COQ, 'theories', '*.v')) + glob.glob(os.path.join(OCAML, '*.ml')) + \
        [os.path.join(OCAML, 'Extract.v'), os.path.join(OCAML, 'build.sh')]
    srcs = [s for s in srcs if not s.endswith('model.ml')]
    if not force and os.path.exists(drv) and os.path.getmtime(drv) >= newest(srcs):
        return True, ''
    rc, out, _ = sh('sh ./build.sh', cwd=OCAML, timeout=900)
    return rc == 0, out


def build_harness(name):
    crate = os.path.join(HARNESS, name)
    lock = os.path.join(crate, 'Cargo.lock')
    if not os.path.exists(lock):
        sh(['cp', os.path.join(REPO, 'Cargo.lock'), lock])
    rc, out, dt = sh('cargo build --offline --manifest-path %s/Cargo.toml' % crate, timeout=1800)
    return rc == 0, out, dt


def harness_bin(name):
    return os.path.join(TARGET, 'debug', name)


# ----------------------------------------------------------------------------------------
# Sharded execution
# ----------------------------------------------------------------------------------------

def _limits():
    # a case that diverges in the implementation must not take the machine down: cap the
    # address space of every child (4 GiB) — it then aborts and is reported as a crash
    import resource
    resource.setrlimit(resource.RLIMIT_AS, (4 << 30, 4 << 30))


def run_both(prop, cases, impl_argv, model_argv, tag='main', timeout=600, supervise=None):
    """cases: list of case lines. Runs impl and model on the same shard files in parallel.
    impl_argv/model_argv: functions shard_path -> argv. Returns (impl_lines, model_lines, info)."""
    wd = os.path.join(WORK, prop, tag)
    os.makedirs(wd, exist_ok=True)
    for f in glob.glob(os.path.join(wd, '*')):
        os.remove(f)
    n = max(1, min(NPROC, (len(cases) + 7) // 8))
    shards = [[] for _ in range(n)]
    for i, c in enumerate(cases):
        shards[i % n].append(c)
    procs = []
    for k, sh_cases in enumerate(shards):
        path = os.path.join(wd, 'shard%02d.cases' % k)
        with open(path, 'w') as f:
            f.write('\n'.join(sh_cases) + ('\n' if sh_cases else ''))
        for side, argv in (('impl', impl_argv(path)), ('model', model_argv(path))):
            out = open(os.path.join(wd, 'shard%02d.%s.out' % (k, side)), 'w')
            err = open(os.path.join(wd, 'shard%02d.%s.err' % (k, side)), 'w')
            procs.append((k, side, subprocess.Popen(argv, stdout=out, stderr=err, env=ENV, preexec_fn=_limits), out, err))
    info = {'shards': n, 'crashes': []}
    deadline = time.time() + timeout
    # a supervised harness prints one flushed line per case: a shard whose output has not grown for a few per-case limits is
    # hung on one case and is killed at once (it is re-run case by case below) instead of holding the whole run until the deadline
    last = {}
    live = list(procs)
    while live:
        now = time.time()
        for ent in list(live):
            k, side, p, out, err = ent
            rc = p.poll()
            if rc is None and now > deadline:
                p.kill(); p.wait(); rc = -9
            if rc is None and supervise is not None and side == 'impl':
                sz = os.path.getsize(out.name)
                if last.get(k, (None, 0))[0] != sz:
                    last[k] = (sz, now)
                elif now - last[k][1] > 3 * supervise:
                    p.kill(); p.wait(); rc = -9
            if rc is not None:
                live.remove(ent)
                out.close(); err.close()
                if rc != 0:
                    info['crashes'].append((k, side, rc))
        if live:
            time.sleep(0.05)
    res = {'impl': [None] * len(cases), 'model': [None] * len(cases)}
    info['supervised'] = []
    confirm_budget = [2]      # divergences confirmed by a second, longer run (the first two of the whole run)
    for k in range(n):
        for side in ('impl', 'model'):
            lines = open(os.path.join(wd, 'shard%02d.%s.out' % (k, side)), errors='replace').read().split('\n')
            lines = [l for l in lines if l]
            if side == 'impl' and len(lines) < len(shards[k]) and supervise is not None:
                # the harness hung or died: re-run this shard case by case under supervision
                path = os.path.join(wd, 'shard%02d.cases' % k)
                lines = run_supervised(impl_argv(path), len(shards[k]), supervise, confirm_budget)
                info['supervised'].append(k)
                info['crashes'] = [c for c in info['crashes'] if not (c[0] == k and c[1] == 'impl')]
            for j, l in enumerate(lines):
                idx = j * n + k
                if idx < len(cases):
                    res[side][idx] = l
    return res['impl'], res['model'], info


def _retry_one(argv, index, timeout):
    import select
    p = subprocess.Popen(argv + ['--from', str(index)], stdout=subprocess.PIPE, stderr=subprocess.DEVNULL, env=ENV, preexec_fn=_limits)
    buf = b''
    end = time.time() + timeout
    line = None
    while time.time() < end:
        r, _, _ = select.select([p.stdout], [], [], max(0.0, end - time.time()))
        if not r:
            break
        chunk = os.read(p.stdout.fileno(), 1 << 16)
        if not chunk:
            break
        buf += chunk
        if b'\n' in buf:
            line = buf.split(b'\n', 1)[0].decode('utf-8', 'replace').strip() or None
            break
    p.kill(); p.wait()
    return line


def run_supervised(argv, ncases, per_case_timeout, confirm_budget=None):
    """Runs a harness that prints one flushed line per case; a case that makes no progress for
    per_case_timeout seconds (or kills the process) is recorded as '(DIVERGED)' / '(CRASHED rc)'
    and the run resumes after it with --from. Returns the list of lines."""
    import select
    lines = []
    while len(lines) < ncases:
        p = subprocess.Popen(argv + ['--from', str(len(lines))], stdout=subprocess.PIPE, stderr=subprocess.DEVNULL,
                             env=ENV, preexec_fn=_limits)
        buf = b''
        stalled = False
        while len(lines) < ncases:
            r, _, _ = select.select([p.stdout], [], [], per_case_timeout)
            if not r:
                stalled = True
                break
            chunk = os.read(p.stdout.fileno(), 1 << 16)
            if not chunk:
                break
            buf += chunk
            while b'\n' in buf:
                ln, buf = buf.split(b'\n', 1)
                if ln.strip():
                    lines.append(ln.decode('utf-8', 'replace'))
        if stalled:
            p.kill(); p.wait()
            # confirm before recording a divergence: the same case once more, alone, with five times the limit (a loaded
            # machine can stall a process for seconds; a genuine non-termination stalls for ever)
            # (only the first two stalls of a run are confirmed: after two genuine divergences the rest are taken as such)
            confirmed = None
            if confirm_budget is None or confirm_budget[0] > 0:
                confirmed = _retry_one(argv, len(lines), 5 * per_case_timeout)
                if confirm_budget is not None and confirmed is None:
                    confirm_budget[0] -= 1
            lines.append(confirmed or '(DIVERGED)')
        else:
            p.wait()
            if len(lines) < ncases:
                lines.append('(CRASHED %s)' % p.returncode)
    return lines[:ncases]


# ----------------------------------------------------------------------------------------
# Tree diff of two observation lines
# ----------------------------------------------------------------------------------------

def tree_diffs(a, b, path=()):
    """Yield (path, sub_a, sub_b) for the smallest differing sub-records."""
    if a == b:
        return
    if isinstance(a, list) and isinstance(b, list) and len(a) == len(b):
        for i, (x, y) in enumerate(zip(a, b)):
            yield from tree_diffs(x, y, path + (i,))
    else:
        yield (path, a, b)


def sub_at(tree, path):
    for i in path:
        tree = tree[i]
    return tree


# ----------------------------------------------------------------------------------------
# Findings, replays, evidence
# ----------------------------------------------------------------------------------------

def load_known_findings():
    p = os.path.join(VERIF, 'KNOWN_FINDINGS.json')
    if not os.path.exists(p):
        return []
    return json.load(open(p)).get('entries', [])


def write_replay(prop, seed, n, payload):
    d = os.path.join(VERIF, 'replays')
    os.makedirs(d, exist_ok=True)
    path = os.path.join(d, '%s-%d-%d.json' % (prop, seed, n))
    payload = dict(payload, property=prop, replay_cmd='./check --replay ' + path)
    with open(path, 'w') as f:
        json.dump(payload, f, indent=1)
    return path


def write_evidence(prop, tier, seed, coverage, wall, violations, assumptions):
    os.makedirs(os.path.join(VERIF, 'evidence'), exist_ok=True)
    ev = {
        'property_id': prop, 'tier': tier, 'seed': seed, 'level': 'proof',
        'coverage': coverage, 'assumptions': assumptions, 'wall_s': round(wall, 2),
        'violations': violations,
    }
    with open(os.path.join(VERIF, 'evidence', prop + '.json'), 'w') as f:
        json.dump(ev, f, indent=1)


def source_fingerprints(files):
    out = {}
    for rel in files:
        p = os.path.join(REPO, rel)
        if os.path.exists(p):
            out[rel] = hashlib.sha256(open(p, 'rb').read()).hexdigest()[:16]
    return out
