"""Minimal S-expression reader/writer (atoms are strings, lists are python lists)."""

def parse(s):
    pos = 0
    n = len(s)
    stack = [[]]
    while pos < n:
        ch = s[pos]
        if ch in ' \t\r\n':
            pos += 1
        elif ch == '(':
            stack.append([]); pos += 1
        elif ch == ')':
            top = stack.pop(); stack[-1].append(top); pos += 1
        else:
            st = pos
            while pos < n and s[pos] not in ' \t\r\n()':
                pos += 1
            stack[-1].append(s[st:pos])
    if len(stack) != 1 or len(stack[0]) != 1:
        raise ValueError('bad sexp: ' + s[:80])
    return stack[0][0]

def dump(x):
    if isinstance(x, (list, tuple)):
        return '(' + ' '.join(dump(y) for y in x) + ')'
    return str(x)

def field(items, key):
    for it in items:
        if isinstance(it, list) and it and it[0] == key:
            return it[1:]
    raise KeyError(key)
