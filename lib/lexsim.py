"""Python reference for the lexer properties: sequential tokenisation of a text with canonical
spans, and an abstract 'only advances' lexer used as the oracle of C04/C05/C03."""
from . import spangen, parsegen

def char_positions(text, le, tab):
    """canonical position at every unit boundary, keyed by character index"""
    pos = {}
    P = spangen.canon_positions(text, le, tab)
    idx = 0
    pos[0] = P[0]
    for k, (kind, syms) in enumerate(spangen.units(text, le)):
        idx += len(syms)
        pos[idx] = P[k + 1]
    return pos

def fmt_pos(p):
    return '%d:%d:%d' % p

def scan_all(text, le, tab, scanner):
    """sequential scan from position 0 up to the first rejected character:
    list of dict(tok=printed token, kind, span, range)"""
    pos = char_positions(text, le, tab)
    out = []
    swapped = False
    for n, (kind, s, e) in enumerate(parsegen.tokens_of(text), 1):
        k = kind
        if scanner == 'modal':
            if swapped and kind in ('A', 'B'):
                k = 'B' if kind == 'A' else 'A'
            if kind == 'LP':
                swapped = True
            elif kind == 'RP':
                swapped = False
        name = k if scanner != 'counting' else '%s/%d' % (k, n)
        a, b = pos[s], pos[e]
        out.append({'tok': name, 'kind': k, 'n': n if scanner == 'counting' else 0,
                    'span': fmt_pos(a) + '~' + fmt_pos(b), 'start': a, 'end': b,
                    'range': '%d..%d' % (a[0], b[0])})
    return out

def keeps(flt, kind):
    """flt: None | ['drop', K...] | ['keep', K...]"""
    if flt is None or flt == 'none':
        return True
    if flt[0] == 'drop':
        return kind not in flt[1:]
    return kind in flt[1:]

class RefLexer:
    """A lexer that only advances: index into the sequential token list + current filter.
    Also tracks where the real lexer's cursor is after eager skips (for the known-finding class)."""
    def __init__(self, toks, i=0, flt=None):
        self.toks, self.i, self.flt = toks, i, flt
    def clone(self):
        return RefLexer(self.toks, self.i, self.flt)
    def first(self):
        j = self.i
        while j < len(self.toks) and not keeps(self.flt, self.toks[j]['kind']):
            j += 1
        return j if j < len(self.toks) else None
    def peek(self):
        j = self.first()
        return None if j is None else self.toks[j]
    def next(self):
        j = self.first()
        if j is None:
            # an advance that finds no deliverable token has still scanned (and consumed) the
            # filtered tokens up to the end of the scannable text
            self.i = len(self.toks)
            return None
        self.i = j + 1
        return self.toks[j]
    def drain(self):
        out = []
        while True:
            t = self.next()
            if t is None:
                return out
            out.append(t)


class SkipLexer(RefLexer):
    """The advance-only lexer plus the one recorded deviation of the real lexer (finding C05-filter-change-after-eager-skip):
    whenever the real lexer stands at a parse start (nothing delivered since the start or the last sub-lex mark) and looks
    ahead, it moves its cursor over the filtered tokens in front of the next deliverable one; a later filter change cannot
    bring them back. `i` is the advance-only index (just behind the last delivered token), `ci >= i` the real cursor; a token
    in [i, ci) that the current filter keeps is LOST, and `met[0]` is set when a delivery or look-ahead passes over one.
    Follows lexer.rs buffer_next / next_nonfiltered / peek / set_filter / start_sublex literally."""
    def __init__(self, toks, flt=None, met=None):
        RefLexer.__init__(self, toks, 0, flt)
        self.ci, self.behind, self.buf = 0, True, None
        self.met = met if met is not None else [False]
    def clone(self):
        c = SkipLexer(self.toks, self.flt, self.met)
        c.i, c.ci, c.behind, c.buf = self.i, self.ci, self.behind, self.buf
        return c
    def _kept(self, j):
        return keeps(self.flt, self.toks[j]['kind'])
    def _note_lost(self, upto):
        if any(self._kept(k) for k in range(self.i, min(upto, self.ci))):
            self.met[0] = True
    def buffer_next(self):
        if self.buf is not None:
            return
        behind = self.behind
        j = self.ci
        while j < len(self.toks):
            if not self._kept(j):
                j += 1
                if behind:
                    self.ci = j                  # the eager skip
            else:
                self.buf = j
                break
    def first(self):
        j = self.buf if self.buf is not None else self.ci
        while j < len(self.toks) and not self._kept(j):
            j += 1
        return j if j < len(self.toks) else None
    def peek(self):
        self.buffer_next()
        j = self.first()
        self._note_lost(j if j is not None else len(self.toks))
        return None if j is None else self.toks[j]
    def next(self):
        j = self.first()
        self._note_lost(j if j is not None else len(self.toks))
        self.buf = None
        if j is None:
            self.ci = len(self.toks); self.i = len(self.toks)
            return None
        self.ci = j + 1; self.i = j + 1; self.behind = False
        return self.toks[j]
    def sublex(self):
        self.behind = True
        self.buffer_next()
    def set_filter(self, flt):
        self.flt = flt
        self.buf = None
        self.buffer_next()
