"""Python reference for the lexer properties: sequential tokenisation of a text with canonical
spans, and an abstract 'only advances' lexer used as the oracle of C04/C05/C03."""
from . import spangen, parsegen

def char_positions(text, le, tab):
    """canonical position at every unit boundary, keyed by character index"""
    pos = {}
    P = spangen.canon_positions(text, le, tab)
    idx = 0
    pos[0] = P[0]
    for k, (kind, syms) in enumerate(spangen.units(text, le)):
        idx += len(syms)
        pos[idx] = P[k + 1]
    return pos

def fmt_pos(p):
    return '%d:%d:%d' % p

def scan_all(text, le, tab, scanner):
    """sequential scan from position 0 up to the first rejected character:
    list of dict(tok=printed token, kind, span, range)"""
    pos = char_positions(text, le, tab)
    out = []
    swapped = False
    for n, (kind, s, e) in enumerate(parsegen.tokens_of(text), 1):
        k = kind
        if scanner == 'modal':
            if swapped and kind in ('A', 'B'):
                k = 'B' if kind == 'A' else 'A'
            if kind == 'LP':
                swapped = True
            elif kind == 'RP':
                swapped = False
        name = k if scanner != 'counting' else '%s/%d' % (k, n)
        a, b = pos[s], pos[e]
        out.append({'tok': name, 'kind': k, 'n': n if scanner == 'counting' else 0,
                    'span': fmt_pos(a) + '~' + fmt_pos(b), 'start': a, 'end': b,
                    'range': '%d..%d' % (a[0], b[0])})
    return out

def keeps(flt, kind):
    """flt: None | ['drop', K...] | ['keep', K...]"""
    if flt is None or flt == 'none':
        return True
    if flt[0] == 'drop':
        return kind not in flt[1:]
    return kind in flt[1:]

class RefLexer:
    """A lexer that only advances: index into the sequential token list + current filter.
    Also tracks where the real lexer's cursor is after eager skips (for the known-finding class)."""
    def __init__(self, toks, i=0, flt=None):
        self.toks, self.i, self.flt = toks, i, flt
    def clone(self):
        return RefLexer(self.toks, self.i, self.flt)
    def first(self):
        j = self.i
        while j < len(self.toks) and not keeps(self.flt, self.toks[j]['kind']):
            j += 1
        return j if j < len(self.toks) else None
    def peek(self):
        j = self.first()
        return None if j is None else self.toks[j]
    def next(self):
        j = self.first()
        if j is None:
            # an advance that finds no deliverable token has still scanned (and consumed) the
            # filtered tokens up to the end of the scannable text
            self.i = len(self.toks)
            return None
        self.i = j + 1
        return self.toks[j]
    def drain(self):
        out = []
        while True:
            t = self.next()
            if t is None:
                return out
            out.append(t)
