"""C15 Error-context transforms apply innermost-first, exactly once."""
from .. import sexp, parsegen
from .parsebase import ParseProp

def spec_events(tree, snk, trail, locked, out):
    """python's own reading of the property: transforms active on the path, innermost first."""
    k = tree[0]
    if k == 'send':
        out.append(['send', tree[1], 'sink'] + [str(t) for t in trail] if snk else ['send', tree[1], 'ret'])
    elif k == 'apply':
        out.append(['apply', tree[1]] + [str(t) for t in trail])
    else:
        if k in ('push', 'pushmut'):
            kids = tree[2:]
            t2, l2, s2 = (trail, locked, snk) if locked else ([tree[1]] + trail, False, snk)
        elif k == 'locked':
            kids = tree[2:]; t2, l2, s2 = trail, tree[1] == 'T', snk
        elif k == 'fork':
            kids = tree[1:]; t2, l2, s2 = trail, locked, snk
        elif k in ('raw', 'rawf'):
            kids = tree[1:]; t2, l2, s2 = [], True, snk
        elif k in ('unrec', 'unrecf'):
            kids = tree[1:]; t2, l2, s2 = trail, locked, False
        for c in kids:
            spec_events(c, s2, t2, l2, out)

def hctx_reference(ops):
    """python's own reading of context.rs: shared cell = one-element list holding the sink id, local cell =
    two-element list [transform, parent cell]; a context = (shared, local, locked); clones alias the cells."""
    regs = [([None], [None, None], False) for _ in range(4)]
    ks = [None, None]
    ls = [[None, None], [None, None]]
    out = []
    def trail(loc):
        t = []
        seen = 0
        while loc is not None and seen < 10000:
            if loc[0] is not None: t.append(str(loc[0]))
            loc = loc[1]; seen += 1
        return t
    for o in ops:
        k = o[0]
        if k == 'new':
            regs[int(o[1])] = ([None if o[2] == '-' else int(o[2])], [None, None], False)
        elif k == 'clone':
            regs[int(o[2])] = regs[int(o[1])]
        elif k == 'pushed':
            sh, lo, lk = regs[int(o[1])]
            regs[int(o[2])] = (sh, lo, lk) if lk else (sh, [int(o[3]), lo], False)
        elif k == 'push':
            sh, lo, lk = regs[int(o[1])]
            if not lk: regs[int(o[1])] = (sh, [int(o[2]), lo], lk)
        elif k == 'locked':
            sh, lo, lk = regs[int(o[1])]; regs[int(o[1])] = (sh, lo, o[2] == 'T')
        elif k == 'nosink':
            sh, lo, lk = regs[int(o[1])]; regs[int(o[2])] = ([None], lo, lk)
        elif k == 'nolocal':
            sh, lo, lk = regs[int(o[1])]; regs[int(o[2])] = (sh, [None, None], True)
        elif k == 'takesink':
            sh = regs[int(o[1])][0]; ks[int(o[2])] = sh[0]; sh[0] = None
        elif k == 'replsink':
            kk = int(o[2])
            if ks[kk] is not None:
                sh = regs[int(o[1])][0]; old = sh[0]; sh[0] = ks[kk]; ks[kk] = old
        elif k == 'takelocal':
            lo = regs[int(o[1])][1]; ls[int(o[2])] = [lo[0], lo[1]]; lo[0] = None; lo[1] = None
        elif k == 'repllocal':
            lo = regs[int(o[1])][1]; new = ls[int(o[2])]; ls[int(o[2])] = [lo[0], lo[1]]; lo[0] = new[0]; lo[1] = new[1]
        elif k == 'send':
            sh, lo, lk = regs[int(o[1])]
            out.append(['send', o[2], 'sink%d' % sh[0]] + trail(lo) if sh[0] is not None else ['send', o[2], 'ret'])
        elif k == 'apply':
            out.append(['apply', o[2]] + trail(regs[int(o[1])][1]))
    return out

class C15(ParseProp):
    id = 'C15'
    files = ['tephra/src/context.rs', 'tephra/src/result.rs', 'tephra-combinator/src/control.rs']
    rule = ('seeded random operation trees over push/pushmut/locked/fork/raw/unrec (wrapped parser succeeding or failing)/send/apply (depth <= tier bound, width <= 3), '
            'with and without sink, every transform tagging the error it sees; plus all trees of a small exhaustive family; plus histories over the WHOLE Context API as a register machine (new/empty, clone, pushed, push, locked, without_error_sink, without_local_context, take/replace_error_sink, take/replace_local_context, send_error, apply_context) on four contexts with two sinks; '
            'non-trivial = tree with >= 2 pushes and a send/apply after a sibling raw/unrec/locked; distinct by tree')
    assumptions = ['transforms are tagging closures; a saved local context is restored only into the context it was taken from (anything else can tie a parent chain into a cycle)']

    def cases(self, tier, rng):
        out = []
        r = rng.fork('C15')
        n = 0
        nrand = 1500 if tier == 'quick' else 20000
        depth = 4 if tier == 'quick' else 6
        for i in range(nrand):
            counter = [0, 0]
            trees = [parsegen.random_ctree(r, depth, counter) for _ in range(1 + r.below(3))]
            n += 1
            out.append(parsegen.ctx_case('c%d' % n, r.below(2), trees))
        # the whole Context API as a register machine (hctx-case): histories without and with the four cell-mutating
        # operations (take/replace of the sink and of the local context)
        for i in range(600 if tier == 'quick' else 8000):
            n += 1
            out.append(parsegen.hctx_case('c%d' % n, parsegen.random_hctx_ops(r, 6 + r.below(14), mutating=(i % 3 != 0))))
        # small exhaustive family: wrapper W around a send, followed by sibling sends at every level
        wrappers = ['raw', 'unrec', 'rawf', 'unrecf', ['locked', 'T'], ['locked', 'F'], 'fork', ['push', 9], ['pushmut', 9]]
        for w1 in wrappers:
            for w2 in wrappers:
                for snk in (0, 1):
                    def mk(w, kids):
                        return ([w] if isinstance(w, str) else list(w)) + kids
                    t = ['push', 1, ['send', 1], mk(w1, [['send', 2], mk(w2, [['send', 3], ['apply', 4]]), ['send', 5]]), ['send', 6], ['apply', 7]]
                    n += 1
                    out.append(parsegen.ctx_case('c%d' % n, snk, [t, ['send', 8]]))
        return out

    def nontrivial(self, ct, it):
        s = sexp.dump(ct)
        if ct[0] == 'hctx-case':
            return s.count('(pushed') + s.count('(push ') >= 2 and s.count('(clone') + s.count('(nosink') + s.count('(nolocal') >= 1
        return s.count('(push') >= 2 and any(w in s for w in ('(raw', '(unrec', '(locked'))

    def oracle(self, ct, it):
        f = ct[2:]
        if ct[0] == 'hctx-case':
            want = hctx_reference(sexp.field(f, 'ops'))
            got = it[1:]
            for i, (w, g) in enumerate(zip(want, got)):
                if w != g:
                    return [((i + 1,), 'event %s: got %s, the cell semantics of context.rs gives %s' % (i, sexp.dump(g), sexp.dump(w)))]
            if len(want) != len(got):
                return [(None, 'expected %d events, got %d' % (len(want), len(got)))]
            return []
        snk = sexp.field(f, 'sink')[0] == '1'
        want = []
        for t in sexp.field(f, 'tree'):
            spec_events(t, snk, [], False, want)
        got = it[1:]
        fails = []
        for i, (w, g) in enumerate(zip(want, got)):
            if w != g:
                fails.append(((i + 1,), 'event %s: got %s, active transforms on its path give %s' % (i, sexp.dump(g), sexp.dump(w))))
                break
        if len(want) != len(got) and not fails:
            fails.append((None, 'expected %d events, got %d' % (len(want), len(got))))
        return fails

    def shrink(self, ct):
        f = ct[2:]
        if ct[0] == 'hctx-case':
            ops = sexp.field(f, 'ops')
            for i in range(len(ops)):
                if ops[i][0] not in ('takelocal',):
                    yield parsegen.hctx_case(ct[1], ops[:i] + ops[i + 1:])
            return
        trees = sexp.field(f, 'tree')
        snk = int(sexp.field(f, 'sink')[0])
        for i in range(len(trees)):
            if len(trees) > 1:
                yield parsegen.ctx_case(ct[1], snk, trees[:i] + trees[i + 1:])
        def subs(t):
            # replace a node by one of its children / drop one child
            if t[0] in ('send', 'apply'):
                return
            head = 2 if t[0] in ('push', 'pushmut', 'locked') else 1
            kids = t[head:]
            for i, k in enumerate(kids):
                yield t[:head] + kids[:i] + kids[i + 1:] if len(kids) > 1 else None
                for s2 in subs(k):
                    if s2 is not None:
                        yield t[:head] + kids[:i] + [s2] + kids[i + 1:]
            for k in kids:
                yield k
        for i, t in enumerate(trees):
            for s2 in subs(t):
                if s2 is not None:
                    yield parsegen.ctx_case(ct[1], snk, trees[:i] + [s2] + trees[i + 1:])

PROP = C15()
