"""C13 Parse errors identify the offending token and stay inside the source."""
import re
from .. import sexp, parsegen, spangen, lexsim, peg
from .gbase import GProp, pfields, mk_case, run_result
from .C03 import byte_canon
from . import C10 as c10mod, C07 as c07mod

def parse_pos(s):
    b, l, c = s.split(':'); return (int(b), int(l), int(c))
def parse_span(s):
    a, b = s.split('~'); return parse_pos(a), parse_pos(b)

def has_filter_change(g):
    s = sexp.dump(g)
    return 'filterwith' in s or 'unfiltered' in s

def leaf_filters(g, flt, out=None):
    """expected-descriptor of every token leaf of g -> the set of filters active at such a leaf (filter_with / unfiltered
    change the filter for their argument only); a descriptor with ONE filter tells which filter a failing leaf saw"""
    if out is None: out = {}
    if g == 'eot':
        out.setdefault('eot', set()).add(sexp.dump(flt) if flt else 'none')
        return out
    if not isinstance(g, list) or not g:
        return out
    h = g[0]
    key = sexp.dump(flt) if flt else 'none'
    if h == 'one' and len(g) == 2:
        out.setdefault('(tok %s)' % g[1], set()).add(key)
    elif h == 'seq':
        for k in g[1:]: out.setdefault('(tok %s)' % k, set()).add(key)
    elif h in ('any', 'anyidx'):
        out.setdefault('(any %s)' % ' '.join(g[1:]), set()).add(key)
    elif h == 'filterwith':
        return leaf_filters(g[2], None if g[1] == 'none' else g[1], out)
    elif h == 'unfiltered':
        return leaf_filters(g[1], None, out)
    for x in g[1:]:
        if isinstance(x, list) or x == 'eot':
            leaf_filters(x, flt, out)
    return out

def seq_sigs(g, out=None):
    """expected-descriptors of the elements of every seq in g: an error with such a descriptor may come from a seq, whose
    parse-so-far span legitimately ends before tokens it consumed itself"""
    if out is None: out = set()
    if isinstance(g, list) and g:
        if g[0] == 'seq':
            for k in g[1:]: out.add('(tok %s)' % k)
        for x in g[1:]:
            if isinstance(x, list): seq_sigs(x, out)
    return out

def errors_of(it):
    """all error trees of a case output: returned errors and sink entries (tags stripped)"""
    out = []
    for x in it[1:]:
        if isinstance(x, list) and x and x[0] == 'run' and isinstance(x[1], list) and x[1][0] == 'err':
            out.append(('returned', x[1][1]))
        if isinstance(x, list) and x and x[0] == 'sink':
            out += [('reported', e) for e in x[1:]]
    res = []
    for how, e in out:
        while isinstance(e, list) and e and e[0] == 'tagged':
            e = e[2]
        res.append((how, e))
    return res

class C13(GProp):
    id = 'C13'
    files = ['tephra-combinator/src/primitive.rs', 'tephra/src/lexer.rs', 'tephra-combinator/src/bracket.rs',
             'tephra-combinator/src/list.rs', 'tephra-error/src/error/lexer.rs', 'tephra-error/src/error/delimit.rs']
    rule = ('failing (grammar, text) pairs: every primitive (one, any, any_index, seq, pred, end_of_text) as the failing leaf at the '
            'first token, after consumed tokens, after filtered tokens and at end of text (systematic), plus seeded random failing '
            'grammars from the C06/C07/C10/C11 families (incl. up_to / list boundary failures with no separator or abort token left and texts ending in filtered tokens), returned (no sink) and reported (through recover with a sink); every error is '
            'taken apart: all positions canonical and start <= end; for unexpected-token errors the found token is the token whose '
            'span is the error\'s token span, it is the first deliverable token at or after the end of the parse-so-far span, and '
            'end-of-text is only reported when no deliverable token remains; bracket errors carry the spans of the tokens the '
            'reference matcher stops at; non-trivial = a case with at least one unexpected-token or bracket error; distinct by case')
    assumptions = ['grammars without filter changes for the first-unacceptable-token check']

    def cases(self, tier, rng):
        out = []
        r = rng.fork('C13')
        n = 0
        def add(t, g, sink=0, **kw):
            nonlocal n
            n += 1
            out.append(parsegen.parse_case('c%d' % n, t, g, sink=sink, **kw))
        leaves = [['one', 'A'], ['any', 'A', 'C'], ['anyidx', 'C', 'A'], ['seq', 'A', 'A'], ['pred', ['is', 'A']], 'eot', ['seq', 'A', 'C', 'A']]
        prefixes = [None, ['one', 'B'], ['seq', 'B', 'B'], ['maybe', ['one', 'C']]]
        texts = [[], ['b'], ['sp', 'b'], ['b', 'sp', 'b'], ['b', 'b', 'sp', 'sp', 'b'], ['b', 'sp'], ['b', 'TAB', 'LF', 'b', 'a'], ['a', 'b'], ['b', 'a', 'sp', 'b'],
                 ['b', 'bang'], ['sp'], ['e2', 'b'], ['b', 'b', 'a', 'c', 'sp', 'b']]
        for t in texts:
            for l in leaves:
                for p in prefixes:
                    g = l if p is None else ['both', p, l]
                    add(t, g, 0, le='lf', tab=4)
                    add(t, ['recoverdef', ['before', 'Semi'], g], 1)
        for i in range(1500 if tier == 'quick' else 20000):
            k = r.below(6)
            t = spangen.random_text(r, ['a', 'b', 'c', 'comma', 'sp', 'sp', 'TAB', 'LF', 'e2', 'bang'], 12)
            if k == 5:
                # a next()-based leaf (one, pred, seq) failing on a lexer that already holds a look-ahead (capture wrappers,
                # up_to, a recovery scan peek before their parser runs), after consumed tokens, with filtered tokens in between
                leaf = r.choice([['one', 'C'], ['pred', ['is', 'C']], ['seq', 'C', 'A'], ['seq', 'B', 'C']])
                peeker = r.choice([lambda x: [r.choice(['spanned', 'text']), x], lambda x: ['upto', x, ['Comma']],
                                   lambda x: ['right', ['maybe', ['one', 'C']], x], lambda x: ['either', x, ['seq', 'C', 'C']],
                                   lambda x: ['both', ['seqcount', 'C'], x]])
                g = ['both', r.choice([['one', 'A'], ['seq', 'A', 'B'], ['any', 'A', 'B']]), peeker(leaf)]
                if r.chance(1, 3): g = ['recoverdef', ['before', 'Comma'], g]
                t = r.choice([['a'], ['a', 'b'], ['b']]) + spangen.random_text(r, ['sp', 'sp', 'TAB', 'LF', 'e2'], 1 + r.below(3)) + \
                    spangen.random_text(r, ['b', 'a', 'comma', 'c', 'sp'], 1 + r.below(4))
            elif k == 4:
                # a leaf that fails right after the filter was relaxed, with a look-ahead buffered across filtered tokens
                # before the change (capture wrappers, seq_count stopping at a mismatch, up_to's terminator check)
                leaf = r.choice([['one', 'C'], ['any', 'C', 'Comma'], ['anyidx', 'C'], ['seq', 'C', 'A'], ['pred', ['is', 'C']], 'eot'])
                inner = r.choice([['unfiltered', leaf], ['filterwith', ['keep', 'A', 'B', 'C', 'Ws', 'Comma'], leaf], ['unfiltered', ['both', ['maybe', ['one', 'C']], leaf]]])
                wrap = r.choice([lambda x: [r.choice(['spanned', 'text']), x], lambda x: ['both', ['seqcount', 'C'], x],
                                 lambda x: ['right', ['maybe', ['one', 'C']], x], lambda x: x])
                g = ['both', r.choice([['one', 'A'], ['seq', 'A', 'B'], ['upto', ['one', 'A'], ['B', 'Comma']]]), wrap(inner)]
                t = r.choice([['a'], ['a', 'b'], ['a', 'sp', 'b']]) + spangen.random_text(r, ['sp', 'sp', 'TAB', 'LF', 'b', 'a', 'comma'], 1 + r.below(4))
            elif k == 3:
                # boundary and count errors (C11 family): an item followed by something that is neither separator nor abort
                # token, with and without a separator / abort token further on, texts ending in filtered tokens or a rejected char
                item = r.choice([['one', 'A'], ['seq', 'A', 'B'], ['both', ['one', 'A'], ['maybe', ['one', 'B']]]])
                ab = r.choice([[], ['Semi'], ['C']])
                g = r.choice([['upto', item, ['Comma'] + ab], ['upto', item, ['Comma'] + ab], ['list', item, 'Comma', ab],
                              ['listb', 1 + r.below(2), r.choice(['inf', 3]), item, 'Comma', ab], ['listdef', item, 'Comma', ab]])
                t = spangen.random_text(r, ['a', 'a', 'b', 'b', 'c', 'comma', 'semi', 'sp', 'sp', 'LF'], 2 + r.below(8))
                if r.chance(1, 2): t = [x for x in t if x not in ('comma', 'semi', 'c')] + r.choice([['sp'], ['sp', 'LF'], ['TAB'], ['sp', 'bang'], []])
            elif k == 0:
                g = parsegen.gen_c06(r, 2 + r.below(8))
            elif k == 1:
                g = c07mod.gen_rep(r, 1 + r.below(3))
            else:
                g = ['both', ['maybe', ['one', 'A']], [r.choice(c10mod.VARIANTS), ['LP', 'LK'], ['one', 'A'], ['RP', 'RK'], r.choice([[], ['Comma']])]]
                t = spangen.random_text(r, ['lp', 'rp', 'lk', 'rk', 'a', 'comma', 'sp'], 8)
            add(t, g, r.below(2), le=r.choice(['lf', 'crlf']), tab=1 + r.below(8))
        return out

    def nontrivial(self, ct, it):
        return any(isinstance(e, list) and e and e[0] in ('unexpected', 'bracket', 'boundary', 'count') for _, e in errors_of(it))

    def oracle(self, ct, it):
        c = pfields(ct)
        toks = lexsim.scan_all(c['text'], c['le'], c['tab'], c['scanner'])
        canon = byte_canon(c['text'], c['le'], c['tab'])
        byspan = {t['span']: t for t in toks}
        fails = []
        flt = c['filter']
        simple = not has_filter_change(c['g'])
        seqs = seq_sigs(c['g'])
        lf = {} if simple else leaf_filters(c['g'], flt)
        def filter_at(exp):
            """(known, filter) active where the leaf expecting `exp` failed"""
            if simple: return True, flt
            fs = lf.get(sexp.dump(exp) if isinstance(exp, list) else exp)
            if fs and len(fs) == 1:
                k = next(iter(fs))
                return True, (None if k == 'none' else sexp.parse(k))
            return False, None
        for how, e in errors_of(it):
            if not isinstance(e, list):
                continue
            txt = sexp.dump(e)
            # (1) every position canonical, spans ordered
            for m in re.finditer(r'(\d+):(\d+):(\d+)~(\d+):(\d+):(\d+)', txt):
                a = tuple(int(x) for x in m.groups()[:3]); b = tuple(int(x) for x in m.groups()[3:])
                if canon.get(a[0]) != a or canon.get(b[0]) != b:
                    fails.append((None, '%s error %s: span %s has a non-canonical endpoint' % (how, txt[:80], m.group(0))))
                if a[0] > b[0]:
                    fails.append((None, '%s error %s: span %s runs backwards' % (how, txt[:80], m.group(0))))
            if e[0] == 'count':
                # "count errors quote the actual ... counts": found / min / max of the one bounded list of the grammar
                lists = []
                def walk(x):
                    if isinstance(x, list) and x:
                        if x[0] in ('listb', 'listbdef'): lists.append(x)
                        for y in x[1:]: walk(y)
                walk(c['g'])
                if len(lists) == 1 and len(e) >= 5:
                    lo_, hi_ = lists[0][1], lists[0][2]
                    if e[3] != lo_ or e[4] != hi_:
                        fails.append((None, '%s count error %s: quotes bounds %s..%s, the list was built with %s..%s' % (how, txt[:80], e[3], e[4], lo_, hi_)))
                    if int(e[2]) >= int(lo_):
                        fails.append((None, '%s count error %s: quotes %s entries, which is not below the lower bound %s' % (how, txt[:80], e[2], lo_)))
                    kind_, v_, _lx = run_result(it[1])
                    if how != 'returned' and kind_ == 'ok' and c['g'] is lists[0] and isinstance(v_, list) and v_ and v_[0] == 'list' and int(e[2]) != len(v_) - 1:
                        fails.append((None, '%s count error %s: quotes %s entries, the list returned %d' % (how, txt[:80], e[2], len(v_) - 1)))
            if e[0] == 'boundary':
                d = {x[0]: x[1:] for x in e[1:]}
                es, endp = parse_span(d['es'][0]), parse_pos(d['end'][0])
                if canon.get(endp[0]) != endp:
                    fails.append((None, '%s boundary error %s: end position is not canonical' % (how, txt[:80])))
                elif endp[0] < es[1][0]:
                    fails.append((None, '%s boundary error %s: quoted end lies before the end of the parse-so-far span' % (how, txt[:80])))
            if e[0] == 'unexpected':
                d = {x[0]: x[1:] for x in e[1:]}
                es, ts, found = parse_span(d['es'][0]), parse_span(d['ts'][0]), d['found'][0]
                if found != 'eot':
                    t = byspan.get(d['ts'][0])
                    if t is None or t['tok'] != found:
                        fails.append((None, '%s unexpected-token error names %s but its token span %s is %s' % (how, found, d['ts'][0],
                                                                                                              'the span of ' + t['tok'] if t else 'not a token')))
                        continue
                    # "the first token the parser could not accept": a found token the leaf would have accepted cannot be it
                    ex = d['exp'][0]
                    if isinstance(ex, list) and ex and ex[0] in ('tok', 'any') and found in ex[1:]:
                        fails.append((None, '%s unexpected-token error names %s as found although it expects %s' % (how, found, sexp.dump(ex))))
                    if es[1][0] > ts[0][0]:
                        fails.append((None, '%s unexpected-token error: parse-so-far span %s ends after the found token %s begins' % (how, d['es'][0], d['ts'][0])))
                    known, fl = filter_at(d['exp'][0])
                    single = (sexp.dump(d['exp'][0]) if isinstance(d['exp'][0], list) else d['exp'][0]) not in seqs
                    if known and single:
                        between = [x for x in toks if x['start'][0] >= es[1][0] and x['end'][0] <= ts[0][0] and lexsim.keeps(fl, x['kind'])]
                        if between:
                            fails.append((None, '%s unexpected-token error names %s at %s but %s at %s is the first token after the parse-so-far span' %
                                          (how, found, d['ts'][0], between[0]['tok'], between[0]['span'])))
                elif filter_at(d['exp'][0])[0]:
                    fl = filter_at(d['exp'][0])[1]
                    lim = max(es[1][0], ts[1][0])
                    later = [x for x in toks if x['start'][0] >= lim and lexsim.keeps(fl, x['kind'])]
                    if later:
                        fails.append((None, '%s error reports end of text although %s at %s remains' % (how, later[0]['tok'], later[0]['span'])))
        # (2) bracket errors against the reference matcher (top-level bracket grammars only)
        ref = peg.reference(c['text'], c['le'], c['tab'], c['scanner'], c['filter'], c['g'], sink=c['sink'])[0]
        if ref[0] == 'fail' and ref[1].startswith('bracket:'):
            errs = [e for how, e in errors_of(it) if isinstance(e, list) and e[0] == 'bracket' and how == 'returned']
            if errs:
                e = errs[0]
                parts = ref[1].split(':')
                def span_of(j): return toks[int(j)]['span']
                if parts[1] == e[1]:
                    if parts[1] in ('unopened', 'unclosed') or (parts[1] == 'none' and parts[2] != 'start'):
                        if e[2] != span_of(parts[2]):
                            fails.append((None, 'bracket %s error carries span %s, the reference matcher stops at %s' % (e[1], e[2], span_of(parts[2]))))
                    elif parts[1] == 'mismatch':
                        if e[3] != span_of(parts[3]):
                            fails.append((None, 'bracket mismatch error: close span %s, reference %s' % (e[3], span_of(parts[3]))))
                        elif e[2] != span_of(parts[2]):
                            fails.append((None, 'bracket mismatch error: open span %s, the mismatched open bracket is at %s' % (e[2], span_of(parts[2]))))
        return fails

PROP = C13()
