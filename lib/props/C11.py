"""C11 Delimited lists parse segment by segment, one error per bad segment."""
import re
from .. import sexp, parsegen, spangen, lexsim, peg
from .gbase import GProp, pfields, mk_case, run_result
from .C02 import gen_list

class C11(GProp):
    id = 'C11'
    files = ['tephra-combinator/src/list.rs', 'tephra-combinator/src/control.rs']
    rule = ('all token strings up to the tier bound over {item tokens, separator, abort token, whitespace (filtered), foreign token, '
            'rejected char} plus seeded random longer ones x non-nullable separator-free item parsers from the C06 family x bounds '
            '0 <= low <= high <= 3 and unbounded x list / list_bounded / list_default / list_bounded_default x sink on/off x '
            'top level and inside brackets; entries (value or placeholder per segment, in order), the number of reported errors, '
            'the remaining token stream and (no sink) failure are compared with a python segment-splitting reference; non-trivial = '
            '>= 2 segments of which >= 1 is bad, or a bound that stops the list early; distinct by case')
    assumptions = ['items are non-nullable and contain no separator or abort tokens (generator-enforced)']
    supervise = 4.0
    run_timeout = {'quick': 120, 'thorough': 900}

    def cases(self, tier, rng):
        out = []
        r = rng.fork('C11')
        n = 0
        def add(t, g, sink):
            nonlocal n
            n += 1
            out.append(parsegen.parse_case('c%d' % n, t, g, sink=sink))
        alpha = ['a', 'b', 'comma', 'semi', 'sp', 'x'] if tier == 'quick' else ['a', 'b', 'comma', 'semi', 'sp', 'x', 'bang']
        protos = [['list', ['one', 'A'], 'Comma', ['Semi']], ['listdef', ['seq', 'A', 'B'], 'Comma', ['Semi']],
                  ['listb', 1, 2, ['any', 'A', 'B'], 'Comma', ['Semi']], ['listbdef', 0, 'inf', ['one', 'A'], 'Comma', []]]
        for t in spangen.all_texts(alpha, 4 if tier == 'quick' else 5):
            add(t, r.choice(protos), r.below(2) if tier == 'quick' else 1)
            if tier != 'quick':
                add(t, r.choice(protos), 0)
        for i in range(1500 if tier == 'quick' else 20000):
            g = gen_list(r)
            if r.chance(1, 4):
                g = g[:-1] + [sorted(set(g[-1] + ['RK']))]          # inside brackets the close token aborts the list
                g = ['bracketdef', ['LK', 'LP'], g, ['RK', 'RP'], []]
                t = ['lk'] + spangen.random_text(r, ['a', 'a', 'b', 'comma', 'comma', 'semi', 'sp', 'x'], 10) + ['rk']
            else:
                t = spangen.random_text(r, ['a', 'a', 'b', 'comma', 'comma', 'semi', 'sp', 'x', 'bang'], 12 if tier == 'quick' else 24)
            add(t, g, 0 if r.chance(1, 4) else 1)
        # the same list parser object invoked again after an invocation that failed part-way (no sink: the first bad segment
        # fails the list): every invocation starts with an empty result
        for i in range(300 if tier == 'quick' else 3000):
            g = gen_list(r)
            g = ['repeat', 0, 'inf', ['either', ['left', g, ['one', 'Semi']], ['any', 'A', 'B', 'Comma', 'Semi', 'X']]]
            t = spangen.random_text(r, ['a', 'a', 'a', 'b', 'comma', 'comma', 'semi', 'sp', 'x'], 14)
            add(t, g, 0)
        return out

    def nontrivial(self, ct, it):
        c = pfields(ct)
        return c['text'].count('comma') >= 1 and (len(it[-1]) > 1 or 'listb' in sexp.dump(c['g']))

    def oracle(self, ct, it):
        c = pfields(ct)
        ref = peg.reference(c['text'], c['le'], c['tab'], c['scanner'], c['filter'], c['g'], sink=c['sink'])[0]
        if ref[0] == 'notcovered':
            return []
        kind, v, lx = run_result(it[1])
        what = 'list %s on [%s]' % (sexp.dump(c['g'])[:110], ' '.join(c['text']))
        tag = ''
        if kind in ('panic', 'diverged'):
            return [((1,), tag + '%s: %s' % (what, kind))]
        if ref[0] == 'fail':
            if kind != 'err':
                return [((1,), tag + '%s: succeeded with %s, reference fails (%s)' % (what, sexp.dump(v)[:100], ref[1]))]
            return []
        if kind != 'ok':
            return [((1,), tag + '%s: failed with %s; reference: %s, %d error(s) reported' % (what, sexp.dump(v)[:90], sexp.dump(ref[1])[:120], ref[4]))]
        fails = []
        if v != ref[1]:
            fails.append(((1,), tag + '%s: entries %s, reference %s' % (what, sexp.dump(v)[:120], sexp.dump(ref[1])[:120])))
        elif lx['rest'] != ref[2]:
            fails.append(((1,), tag + '%s: remaining stream [%s], reference [%s]' % (what, ' '.join(lx['rest']), ' '.join(ref[2]))))
        nsink = len(it[-1]) - 1
        if not fails and nsink != ref[4]:
            fails.append(((1,), tag + '%s: %d errors reported, reference expects %d' % (what, nsink, ref[4])))
        # every bad segment's error lies between the separators (or list boundaries) delimiting its segment, inclusive
        bounds = list(peg.reference.list_bounds)
        if not fails and sexp.dump(c['g']).count('(list') == 1:
            def untag(e):
                while isinstance(e, list) and e and e[0] == 'tagged': e = e[-1]
                return e
            entries = [e for e in it[-1][1:] if not (isinstance(untag(e), list) and untag(e) and untag(e)[0] == 'count')]
            if len(entries) == len(bounds):
                for n_, (e, (lo_b, hi_b)) in enumerate(zip(entries, bounds)):
                    for m in re.finditer(r'(\d+):\d+:\d+~(\d+):\d+:\d+', sexp.dump(e)):
                        a, b = int(m.group(1)), int(m.group(2))
                        if a < lo_b or (hi_b is not None and b > hi_b):
                            fails.append(((len(it) - 1, n_ + 1), '%s: error %d %s has span %s outside its segment (bytes %d..%s)'
                                          % (what, n_ + 1, sexp.dump(e)[:100], m.group(0), lo_b, 'end' if hi_b is None else hi_b)))
                            break
        return fails

PROP = C11()
