"""C16 Rendered reports show the right lines with aligned, correctly placed marks."""
import re
from .. import sexp, spangen
from ..runner import Prop
from .spanbase import Units, TB_SPAN

MARK = {'error': '^', 'warning': '^', 'info': '-', 'note': '-', 'help': '~'}
TYPES = ['info', 'error', 'warning', 'note', 'help']

def render_case(cid, le, tab, named, mtype, code, msg, text, displays):
    def sp(a, b):
        return '(span %d %d %d %d %d %d)' % (a + b)
    ds = ''
    for (a, b, hls) in displays:
        ds += ' (display %s%s)' % (sp(a, b), ''.join(' (hl %s %d %s)' % (t, m, sp(x, y)) for (t, m, x, y) in hls))
    return '(render-case %s (le %s) (tab %d) (named %d) (mtype %s) (code %d) (msg %d) (text%s) (displays%s))' % (
        cid, le, tab, named, mtype, code, msg, ''.join(' ' + s for s in text), ds)

def fields(ct):
    f = ct[2:]
    g = lambda k: sexp.field(f, k)
    disp = []
    for d in g('displays'):
        sp = [int(x) for x in d[1][1:]]
        hls = []
        for h in d[2:]:
            hs = [int(x) for x in h[3][1:]]
            hls.append((h[1], int(h[2]), tuple(hs[:3]), tuple(hs[3:])))
        disp.append((tuple(sp[:3]), tuple(sp[3:]), hls))
    return {'le': g('le')[0], 'tab': int(g('tab')[0]), 'named': g('named')[0] == '1', 'mtype': g('mtype')[0], 'code': g('code')[0] == '1',
            'msg': int(g('msg')[0]), 'text': g('text'), 'displays': disp}

CHARS = {'a': 'a', 'b': 'b', 'c': 'c', 'd': 'd', 'x': 'x', 'sp': ' ', 'TAB': '\t', 'CR': '\r', 'LF': '\n', 'e2': 'é', 'w3': '世',
         'z3': '​', 'w4': '\U0001F600', 'z2': '́', 'bang': '!', 'comma': ',', 'semi': ';', 'hash': '#', 'lp': '(', 'rp': ')',
         'lk': '[', 'rk': ']', 'lc': '{', 'rc': '}'}

class C16(Prop):
    id = 'C16'
    harness = 'hrender'
    driver_mode = 'render'
    files = ['tephra-error/src/display.rs', 'tephra-error/src/highlight.rs', 'tephra-error/src/error/source.rs',
             'tephra-error/src/message.rs', 'tephra-span/src/span.rs']
    trusted_base = TB_SPAN[:1] + [
        'hand-written Gallina models coq/theories/Render.v (plain) and RenderColor.v (coloured: styled cells) of the rendering in tephra-error (display.rs, highlight.rs, message.rs), on top of the span-layer model; both tied to /repo by this correspondence run (byte-for-byte; colored crate really enabled: tephra-error built without its default feature)',
        'escape format of the colored crate (ESC[ 1; 9x m ... ESC[0m, padding inside) is written by the OCaml driver; cell characters come from the extracted denotation den',
        'the owned copy is not modelled: the harness itself compares owned against borrowed; it also compares coloured-with-escapes-stripped against plain on the real strings',
        'extraction: ExtrOcamlBasic only (Coq string/ascii stay inductives); OCaml driver turns cells into bytes',
        'Rust harness harness/hrender and python orchestration; the python layout oracle (row parser) in lib/props/C16.py',
        'f32::log10 in SpanDisplay::new is modelled by an integer ceil-log10 (validated on every line number reached, incl. 9/10/11, 99/100/101, 999/1000/1001)',
    ]
    rule = ('exhaustive short texts (<= tier bound lines) over {a, TAB, wide char, zero-width characters, line ending} with all canonical spans as display and '
            'highlight spans (empty, within a line, ending at a line end, spanning 2..n lines, starting at column 0 or mid-line), '
            '1-3 highlights per display, 1-2 displays, every message type, named/unnamed, code id on/off, LF/CR/CRLF, plus long texts '
            'reaching line numbers 9/10/11, 99/100/101, 999/1000/1001 (LF with one highlight; CR / CRLF / LF with 2-3 highlights, tabs, tab widths 2/4/8 and a second display with a narrower gutter); the plain and the coloured rendering are compared byte for byte with the two models and the plain one is '
            'parsed back by a layout oracle (lines shown once/in order/verbatim/labelled, gutter separator column, mark columns and '
            'widths, riser continuity); coloured-stripped == plain and owned == borrowed are checked by the harness on the real '
            'strings; non-trivial = a display with a multi-line highlight or a line number >= 10; distinct by case')
    assumptions = ['display and highlight spans are canonical spans of the source; highlights lie inside their display span']

    def cases(self, tier, rng):
        out = []
        r = rng.fork('C16')
        n = 0
        def add(le, tab, text, displays, **kw):
            nonlocal n
            n += 1
            out.append(render_case('c%d' % n, le, tab, kw.get('named', r.below(2)), kw.get('mtype', r.choice(TYPES)), kw.get('code', r.below(2)),
                                   r.below(9), text, displays))
        lb = {'lf': ['LF'], 'cr': ['CR'], 'crlf': ['CR', 'LF']}
        # short texts: every span as display+highlight
        lines_pool = [[], ['a'], ['a', 'b'], ['TAB', 'a'], ['w3', 'a', 'b'], ['a', 'TAB', 'b'], ['a', 'z3', 'b'], ['z2', 'a'], ['z3']]
        for le in ('lf', 'cr', 'crlf'):
            for nl in range(1, 4 if tier == 'quick' else 5):
                for _ in range(12 if tier == 'quick' else 60):
                    text = []
                    for i in range(nl):
                        text += r.choice(lines_pool)
                        if i < nl - 1 or r.chance(1, 3):
                            text += lb[le]
                    P = spangen.canon_positions(text, le, 4)
                    for _ in range(6):
                        i = r.below(len(P)); j = i + r.below(len(P) - i)
                        hls = []
                        for _ in range(1 + r.below(3)):
                            a = i + r.below(j - i + 1); b = a + r.below(j - a + 1)
                            hls.append((r.choice(TYPES), r.below(9), P[a], P[b]))
                        disp = [(P[i], P[j], hls)]
                        if r.chance(1, 4):
                            k = r.below(len(P))
                            disp.append((P[k], P[k], [('error', 1, P[k], P[k])]))
                        add(le, 4, text, disp)
        # long texts: line numbers around the powers of ten
        for target in ([9, 10, 11, 99, 100, 101] if tier == 'quick' else [9, 10, 11, 12, 99, 100, 101, 999, 1000, 1001]):
            text = []
            for i in range(target + 2):
                text += ['a', 'b'] if i % 3 else ['a']
                text += ['LF']
            P = spangen.canon_positions(text, 'lf', 4)
            byline = {}
            for idx, p in enumerate(P):
                byline.setdefault(p[1], []).append(idx)
            for (l0, l1) in ((target, target), (target - 1, target), (target, target + 1), (max(0, target - 2), target + 1)):
                a = byline[l0][r.below(len(byline[l0]))]; b = byline[l1][-1 - r.below(len(byline[l1]))]
                if a > b: a, b = b, a
                add('lf', 4, text, [(P[a], P[b], [('error', 1, P[a], P[b])])])
            # the same line numbers under CR / CRLF, with 2-3 highlights (mid-line starts, risers crossing the power of ten) and a
            # second display on an early line (its own, narrower gutter)
            le2 = ['cr', 'crlf', 'lf'][target % 3]
            text2 = []
            for i in range(target + 2):
                text2 += (['a', 'b', 'TAB', 'a'] if i % 4 == 1 else ['a', 'b']) if i % 3 else ['a']
                text2 += lb[le2]
            tabv = r.choice([2, 4, 8])
            P2 = spangen.canon_positions(text2, le2, tabv)
            by2 = {}
            for idx, p in enumerate(P2):
                by2.setdefault(p[1], []).append(idx)
            lo_l, hi_l = max(0, target - 2), target + 1
            a = by2[lo_l][0]; b = by2[hi_l][-1]
            hls = []
            for _ in range(2 + r.below(2)):
                x = a + r.below(b - a + 1); y = x + r.below(b - x + 1)
                hls.append((r.choice(TYPES), r.below(9), P2[x], P2[y]))
            disp = [(P2[a], P2[b], hls)]
            if r.chance(1, 2):
                k0 = by2[1][0]
                disp.append((P2[k0], P2[k0], [('note', 2, P2[k0], P2[k0])]))
            add(le2, tabv, text2, disp)
        return out

    def nontrivial(self, ct, it):
        c = fields(ct)
        return any(h[2][1] != h[3][1] for d in c['displays'] for h in d[2]) or any(d[1][1] >= 10 for d in c['displays'])

    def key(self, ct, it):
        return sexp.dump(ct[2:])

    # ---------------- layout oracle ----------------
    def oracle(self, ct, it):
        c = fields(ct)
        d = {x[0]: x[1] for x in it[1:] if isinstance(x, list) and len(x) == 2}
        fails = []
        for k in ('colour-eq', 'owned-eq', 'owned-plain-eq'):
            if d.get(k) != 'T':
                fails.append((None, {'colour-eq': 'the plain rendering differs from the coloured rendering with escape codes removed',
                                     'owned-eq': 'an owned copy of the source error renders differently from the borrowed original',
                                     'owned-plain-eq': 'the SourceError rendering differs from the direct CodeDisplay rendering'}[k] + ' (%s)' % d.get(k)))
        if d.get('plain') in (None, 'PANIC', 'FUEL'):
            fails.append((None, 'rendering panics'))
            return fails
        out = bytes.fromhex(d['plain']).decode('utf-8')
        text = ''.join(CHARS[s] for s in c['text'])
        u = Units(c['text'], c['le'], c['tab'])
        lbs = {'lf': '\n', 'cr': '\r', 'crlf': '\r\n'}[c['le']]
        src_lines = text.split(lbs)
        # split the output into display blocks at the "-->" header rows; output rows end with '\n' (source rows may contain
        # lone CR/LF characters of a different line-ending style: use the known structure instead of splitting blindly)
        rows = out.split('\n')
        lone_lf = ('\n' in text.replace('\r\n', '')) if c['le'] == 'crlf' else (c['le'] == 'cr' and '\n' in text)
        if lone_lf:
            return fails           # a lone LF INSIDE a source row makes row splitting ambiguous: layout oracle not applied
        blocks = []
        for row in rows[1:]:
            if re.match(r'^ *--> ', row):
                blocks.append([row])
            elif blocks:
                blocks[-1].append(row)
        if len(blocks) != len(c['displays']):
            return fails + [(None, 'expected %d span displays, found %d' % (len(c['displays']), len(blocks)))]
        for (da, db, hls), blk in zip(c['displays'], blocks):
            i, j = u.index[da], u.index[db]
            l0, l1 = u.P[u.lstart_k(i)][1], u.P[u.lend_k(j)][1]
            body = [r_ for r_ in blk[1:] if r_ != '']
            seps = set()
            for r_ in body:
                m = re.match(r'^( *\d* *)\| ?', r_)
                if not m:
                    fails.append((None, 'row without gutter separator: %r' % r_)); continue
                seps.add(len(m.group(1)))
            if len(seps) > 1:
                fails.append((None, 'gutter separators are in columns %s within one span display (line numbers up to %d)' % (sorted(seps), l1)))
                continue
            if not seps:
                continue
            sepcol = seps.pop()
            multi = [h for h in hls if h[2][1] != h[3][1]]
            off = sepcol + 2 + len(multi) + (1 if multi else 0)      # column where source text / mark columns start
            src_rows = [(int(r_[:sepcol].strip()), r_) for r_ in body if r_[:sepcol].strip().isdigit()]
            want_lines = list(range(l0, l1 + 1))
            if [n_ for n_, _ in src_rows] != want_lines:
                fails.append((None, 'source rows are labelled %s, the displayed span touches lines %s' % ([n_ for n_, _ in src_rows], want_lines)))
                continue
            for n_, r_ in src_rows:
                if r_[off:] != src_lines[n_]:
                    fails.append((None, 'source row %d shows %r, the line is %r' % (n_, r_[off:], src_lines[n_])))
            # message rows: group the rows following each source row
            follow = {}
            cur = None
            order = []
            for r_ in body[1:] if body and body[0][:sepcol].strip() == '' else body:
                lab = r_[:sepcol].strip()
                if lab.isdigit():
                    cur = int(lab); follow[cur] = []; order.append(('src', cur, r_))
                elif cur is not None:
                    follow[cur].append(r_); order.append(('msg', cur, r_))
            # message rows under a line appear in highlight order, one per highlight that has a mark on that line
            def has_msg(h, l):
                return (h[2][1] == l and h[2][2] != 0 and h[2][1] != h[3][1]) or h[3][1] == l
            row_of = {}          # (highlight index, 'start'|'end'|'single') -> index into order
            bad = False
            for l in want_lines:
                exp = []
                for hi, h in enumerate(hls):
                    if h[2][1] == h[3][1]:
                        if h[3][1] == l: exp.append((hi, 'single'))
                    else:
                        if h[2][1] == l and h[2][2] != 0: exp.append((hi, 'start'))
                        if h[3][1] == l: exp.append((hi, 'end'))
                got = [idx_ for idx_, (kind, ln, r_) in enumerate(order) if kind == 'msg' and ln == l]
                if len(got) != len(exp):
                    fails.append((None, 'line %d has %d mark rows, its highlights need %d' % (l, len(got), len(exp)))); bad = True; break
                for idx_, e_ in zip(got, exp):
                    row_of[e_] = idx_
            if bad:
                continue
            for hi, (ty, mid, a, b) in enumerate(hls):
                if a[1] == b[1]:
                    want = ' ' * a[2] + ('\\' if a[0] == b[0] else MARK[ty] * max(b[2] - a[2], 1)) + ' m%d' % mid
                    r_ = order[row_of[(hi, 'single')]][2]
                    if r_[off:] != want:
                        fails.append((None, 'single-line highlight %s..%s (%s): mark row %r, expected %r' % (a, b, ty, r_[off:], want)))
                else:
                    rk = sepcol + 2 + sum(1 for h2 in hls[:hi] if h2[2][1] != h2[3][1])   # riser column: by position (two highlights may be equal)
                    er = order[row_of[(hi, 'end')]][2]
                    if not er.endswith(' m%d' % mid):
                        fails.append((None, 'multi-line highlight %s..%s: end mark row %r lacks its message' % (a, b, er)))
                    pos_caret = er.find('^', rk)
                    if pos_caret != off + max(b[2] - 1, 0):
                        fails.append((None, 'multi-line highlight %s..%s: end mark in column %d, expected column %d (last covered column; column 0 for a highlight ending at a line start)' % (a, b, pos_caret - off, max(b[2] - 1, 0))))
                    if a[2] == 0:
                        start_row_idx = [idx_ for idx_, (kind, ln, r_) in enumerate(order) if kind == 'src' and ln == a[1]][0]
                        if order[start_row_idx][2][rk] != '/':
                            fails.append((None, 'multi-line highlight %s..%s starting at column 0: no riser start on its first source row' % (a, b)))
                    else:
                        start_row_idx = row_of[(hi, 'start')]
                        sr = order[start_row_idx][2]
                        pc = sr.find('^', rk)
                        if pc != off + a[2]:
                            fails.append((None, 'multi-line highlight %s..%s: start mark in column %d, expected under the start column %d' % (a, b, pc - off, a[2])))
                    end_row_idx = row_of[(hi, 'end')]
                    for idx_, (kind, ln, r_) in enumerate(order):
                        cell = r_[rk] if len(r_) > rk else ' '
                        if start_row_idx < idx_ <= end_row_idx:
                            if cell != '|':
                                fails.append((None, 'multi-line highlight %s..%s: riser missing (%r) on the %s row of line %d between its start and end marks' % (a, b, cell, kind, ln)))
                                break
                        elif idx_ < start_row_idx or idx_ > end_row_idx:
                            if cell != ' ':
                                fails.append((None, 'multi-line highlight %s..%s: riser cell %r on the %s row of line %d outside its extent' % (a, b, cell, kind, ln)))
                                break
        return fails

    def shrink(self, ct):
        return []

PROP = C16()
