"""Shared pieces of the lexer/context/combinator properties."""
from .. import sexp
from ..runner import Prop

TB_PARSE = [
    'Rocq/Coq 8.16.1 kernel (coqc; coqchk in the thorough tier); no native_compute',
    'hand-written Gallina model coq/theories/{Scanner,CLexer,Ctx,Grammar,Run}.v of tephra / tephra-combinator, tied to /repo by this correspondence run',
    'contexts are modelled as values (Ctx.v): no library code mutates a shared context cell after the raw/unrecoverable repair; user calls of take_*/replace_* are outside the model',
    'extraction: ExtrOcamlBasic only, no Extract Constant, nat stays Peano; OCaml 4.13.1; ocaml/*.ml driver',
    'Rust harness harness/hparse (compiles case grammars to the real combinators, downcasts errors, catch_unwind) and python orchestration lib/',
    'the three harness scanners (plain, counting, modal) are user code, implemented identically in hparse and Scanner.v',
]

class ParseProp(Prop):
    harness = 'hparse'
    driver_mode = 'parse'
    trusted_base = TB_PARSE

    def key(self, case_tree, impl_tree):
        return sexp.dump(case_tree[2:])
