import importlib

def get(pid):
    mod = importlib.import_module('lib.props.' + pid)
    return mod.PROP
