"""C06 Sequencing, choice and option combinators follow ordered-choice semantics."""
from .. import sexp, parsegen, spangen, lexsim, peg
from .gbase import GProp, pfields, mk_case, run_result

TEXT_ALPHA = ['a', 'a', 'b', 'b', 'c', 'comma', 'sp', 'sp', 'bang']

class C06(GProp):
    id = 'C06'
    files = ['tephra-combinator/src/primitive.rs', 'tephra-combinator/src/join.rs', 'tephra-combinator/src/alt.rs',
             'tephra-combinator/src/control.rs', 'tephra-combinator/src/misc.rs']
    rule = ('seeded random grammar trees (size <= tier bound) over {empty, one, any, any_index, seq, seq_count, pred, end_of_text, '
            'left, right, both, center, map, discard, either, maybe, require_if, cond, implies, antecedent, consequent, '
            'cond_implies, filter_with, unfiltered, sub} plus every leaf under every unary/binary constructor at size 2-3, on '
            'random token strings (<= 12 chars incl. filtered whitespace and a scanner-rejected char), filter on/off; accept/'
            'reject, value, remaining filtered stream and filter flag are compared with a python PEG evaluator over the token list; '
            'non-trivial = grammar with a choice/option/filter node whose result is ok with a non-empty remaining stream or a failure '
            'after consumed tokens; distinct by case')
    assumptions = ['plain harness scanner; user predicates are the constants/kind tests of the case format']

    def cases(self, tier, rng):
        out = []
        r = rng.fork('C06')
        n = 0
        def add(t, g, flt):
            nonlocal n
            n += 1
            out.append(parsegen.parse_case('c%d' % n, t, g, flt=flt, sink=r.below(2)))
        # systematic: every leaf under every unary / binary constructor
        leaves = [['one', 'A'], ['any', 'A', 'B'], ['anyidx', 'B', 'A'], ['seq', 'A', 'B'], ['seqcount', 'A', 'A', 'B'], ['pred', ['not', ['is', 'A']]], 'empty', 'eot']
        unary = [lambda a: ['maybe', a], lambda a: ['discard', a], lambda a: ['sub', a], lambda a: ['unfiltered', a],
                 lambda a: ['filterwith', ['drop', 'Ws', 'A'], a], lambda a: ['reqif', 'F', a], lambda a: ['cond', 'T', a], lambda a: ['map', 3, a]]
        binary = [lambda a, b: ['both', a, b], lambda a, b: ['either', a, b], lambda a, b: ['left', a, b], lambda a, b: ['implies', a, b],
                  lambda a, b: ['condimplies', a, ['istok', 'A'], b], lambda a, b: ['consequent', a, b]]
        texts = [[], ['a'], ['a', 'sp', 'b'], ['sp', 'a', 'a', 'sp'], ['b', 'a'], ['a', 'bang'], ['a', 'sp'], ['sp', 'sp'], ['a', 'b', 'c']]
        for t in texts:
            for l in leaves:
                for u in unary:
                    add(t, u(l), ['drop', 'Ws'])
                if tier != 'quick' or texts.index(t) % 2 == 0:
                    for l2 in leaves:
                        for b in binary:
                            add(t, b(l, l2), ['drop', 'Ws'])
        # a sub-parse mark mid-stream (tokens consumed, no look-ahead buffered) directly in front of, or inside, a temporary filter
        # change: the mark drops the filtered tokens in front of it, so an inner `unfiltered` does not see them
        for i in range(300 if tier == 'quick' else 3000):
            head = r.choice([['one', 'A'], ['seq', 'A', 'B'], ['any', 'A', 'B'], ['pred', ['is', 'A']]])
            inner = r.choice([['one', 'B'], ['maybe', ['one', 'Ws']], ['one', 'Ws'], ['both', ['maybe', ['one', 'Ws']], ['one', 'B']], 'empty', ['seq', 'B', 'A']])
            fc = r.choice([['unfiltered', inner], ['filterwith', ['keep', 'A', 'B', 'Ws', 'Comma'], inner], ['filterwith', ['drop', 'Comma'], inner]])
            g = r.choice([[r.choice(['right', 'both']), head, ['sub', fc]], ['both', head, ['both', ['sub', fc], ['maybe', ['one', 'B']]]],
                          ['both', head, ['sub', ['both', ['maybe', ['one', 'C']], fc]]], ['both', head, fc]])
            t = r.choice([['a'], ['a', 'b'], ['b', 'a']]) + spangen.random_text(r, ['sp', 'sp', 'comma', 'b', 'a'], 1 + r.below(4))
            add(t, g, r.choice([['drop', 'Ws'], ['drop', 'Ws'], ['drop', 'Ws', 'Comma']]))
        for i in range(3000 if tier == 'quick' else 40000):
            g = parsegen.gen_c06(r, 2 + r.below(10 if tier == 'quick' else 14))
            t = spangen.random_text(r, TEXT_ALPHA, 12 if tier == 'quick' else 30)
            add(t, g, r.choice([['drop', 'Ws'], ['drop', 'Ws'], 'none', ['drop', 'Ws', 'Comma']]))
        return out

    def nontrivial(self, ct, it):
        c = pfields(ct)
        s = sexp.dump(c['g'])
        if not any(w in s for w in ('either', 'maybe', 'implies', 'filterwith', 'unfiltered', 'consequent', 'antecedent', 'reqif')):
            return False
        kind, v, lx = run_result(it[1])
        return (kind == 'ok' and lx is not None and len(lx.get('rest', [])) > 0) or kind == 'err'

    def oracle(self, ct, it):
        fails = self.oracle_with(ct, it, True)
        exact = not peg.reference.unknown_used
        if peg.reference.lost_met and not fails:
            # the reference follows the code where a temporary filter change meets tokens skipped eagerly at a parse start
            # (they stay lost when the wider filter comes back): that is the recorded C05 finding, reported here as such
            return [((1,), '[parse-start-filter-change] a token skipped eagerly at a parse start stays lost although a later filter (the restored one, or the one filter_with / unfiltered installs) keeps it')]
        if fails and not exact:
            # a sub-parse mark was reached behind a combinator whose look-ahead the reference does not follow (lists, brackets,
            # recovery): whether the mark skips the filtered tokens in front of it is then not known to the oracle. A complaint
            # that the other reading of the mark explains is left to the model comparison.
            if not self.oracle_with(ct, it, False):
                return []
        return fails

    def classify(self, ct, f):
        what = str(f.get('detail', {}).get('what', ''))
        if f.get('kind') == 'oracle' and what.startswith('[parse-start-filter-change]'):
            return self.id + '-filter-change-at-parse-start'
        return None

    def oracle_with(self, ct, it, sub_skip):
        c = pfields(ct)
        ref = peg.reference(c['text'], c['le'], c['tab'], c['scanner'], c['filter'], c['g'], sink=c['sink'], sub_skip=sub_skip)[0]
        if ref[0] == 'notcovered':
            return []
        kind, v, lx = run_result(it[1])
        if kind in ('panic', 'diverged'):
            return [((1,), 'parser %s on %s: %s (ordered-choice semantics: %s)' % (sexp.dump(c['g']), ' '.join(c['text']), kind, ref[0]))]
        if ref[0] == 'fail':
            if kind != 'err':
                return [((1,), 'accepted (%s) although ordered-choice semantics over the filtered token stream rejects' % sexp.dump(v))]
            return []
        if kind != 'ok':
            return [((1,), 'rejected (%s) although ordered-choice semantics accepts with value %s' % (sexp.dump(v), sexp.dump(ref[1])))]
        fails = []
        if v != ref[1]:
            fails.append(((1,), 'value %s, ordered-choice semantics gives %s' % (sexp.dump(v), sexp.dump(ref[1]))))
        if lx['rest'] != ref[2]:
            fails.append(((1,), 'remaining token stream %s, ordered-choice semantics leaves %s' % (' '.join(lx['rest']), ' '.join(ref[2]))))
        if (lx['flt'][0] == 'T') != ref[3]:
            fails.append(((1,), 'filter present after the parse: %s, expected %s' % (lx['flt'][0], ref[3])))
        return fails

PROP = C06()
