"""C12 Recovery resumes exactly at the requested token, every time."""
from .. import sexp, parsegen, spangen, lexsim, peg
from .gbase import GProp, pfields, mk_case, run_result

RCOMB = ['recover', 'recoverdef', 'recoverdelayed', 'recoverdefdelayed']

def gen_rs(r):
    k = r.below(4)
    if k == 0: return ['before', r.choice(['Semi', 'Comma'])]
    if k == 1: return ['after', r.choice(['Semi', 'Comma'])]
    if k == 2: return ['beforeany', 'Semi', 'Comma']
    return ['afterany', 'Semi', 'Comma']

def ends_with_stabilize(g):
    """the last parser of g to run on a successful parse is a stabilize"""
    if not isinstance(g, list) or not g: return False
    if g[0] == 'stabilize': return True
    if g[0] in ('both', 'right'): return ends_with_stabilize(g[2])
    return False

class C12(GProp):
    id = 'C12'
    files = ['tephra-error/src/recover.rs', 'tephra/src/lexer.rs', 'tephra-combinator/src/control.rs']
    rule = ('seeded random texts over items, the recovery tokens (first, last, repeated, absent), whitespace and a rejected char x '
            'recover / recover_default / delayed variants x recover_before / recover_after / _any x the same parser object invoked '
            '1..4 times in sequence (runs) and inside repeat, a stabilize that succeeds only after resuming a recover_after recovery (followed by further stabilizing / recovering parsers), and two different recovering parsers in sequence without a stabilize x sink on/off; per invocation: ok/err, placeholder value, the remaining '
            'token stream (next token = recovery point) and the number of errors reported are compared with a python reference '
            '(first recovery token at or after the start of the failed parser); non-trivial = a run in which the wrapped parser '
            'failed with a sink installed; distinct by case')
    assumptions = ['the wrapped parser reports nothing itself (leaves and sequences of leaves)']

    def cases(self, tier, rng):
        out = []
        r = rng.fork('C12')
        n = 0
        alpha = ['a', 'a', 'b', 'semi', 'semi', 'comma', 'sp', 'bang']
        for i in range(2500 if tier == 'quick' else 30000):
            comb = r.choice(RCOMB)
            rs = gen_rs(r)
            a = r.choice([['one', 'A'], ['seq', 'A', 'A'], ['both', ['one', 'A'], ['one', 'B']], ['any', 'A', 'B']])
            g = [comb, rs, a]
            runs = 1
            k = r.below(8)
            if k == 0: g = ['both', g, ['maybe', ['one', rs[1]]]]
            elif k == 1: g = ['repeat', 0, 'inf', ['both', g, ['one', rs[1] if len(rs) == 2 else 'Semi']]]
            elif k in (2, 3): runs = 2 + r.below(3)
            elif k == 4 and rs[0].startswith('after'):
                # the same recovering parser re-entered after it failed with a recovery error
                g = ['repeat', 0, 'inf', ['either', g, ['any', 'Semi', 'Comma', 'B', 'A']]]
            elif k == 5:
                # two DIFFERENT recovering parsers one after the other, no stabilize in between: the second recovery starts
                # on a lexer that still carries the first one's recover state and must scan for its OWN token
                rs2 = gen_rs(r)
                a2 = r.choice([['one', 'A'], ['seq', 'A', 'A'], ['any', 'A', 'B']])
                sep1 = ['maybe', ['any', 'Semi', 'Comma']]
                g = ['both', ['left', g, sep1], [r.choice(RCOMB), rs2, a2]]
            text = None
            if k == 7:
                # a stabilising parse that succeeds only after stabilize RESUMED the recovery (attempt >= 1): the recovery resumes
                # at a token the stabilised parser rejects, a further recovery token follows and the parser succeeds behind it;
                # the lexer it returns is stable (rec flag of the model comparison) and a later stabilize has nothing to resume
                rs = r.choice([['after', 'Semi'], ['after', 'Semi'], ['afterany', 'Semi', 'Comma']])
                first = [r.choice(['recover', 'recoverdef']), rs, ['one', 'A']]
                st = ['stabilize', r.choice([['one', 'B'], ['seq', 'B', 'B'], ['both', ['one', 'B'], ['maybe', ['one', 'A']]]])]
                tail = r.choice([st, ['both', st, ['stabilize', ['one', 'A']]], ['both', st, ['maybe', ['stabilize', ['one', 'A']]]],
                                 ['both', st, [r.choice(RCOMB), gen_rs(r), ['one', 'A']]]])
                g = ['both', first, tail]
                junk = lambda: [r.choice(['c', 'a', 'c', 'sp'])] * r.below(3)
                text = (['c'] + junk() + ['semi'] + [r.choice(['c', 'a'])] + junk() + ['semi'] +
                        ([r.choice(['c', 'a']), 'semi'] if r.chance(1, 3) else []) + ['b'] +
                        spangen.random_text(r, ['a', 'b', 'c', 'semi', 'sp'], 5))
            t = text or spangen.random_text(r, alpha, 12 if tier == 'quick' else 24)
            n += 1
            out.append(parsegen.parse_case('c%d' % n, t, g, sink=(0 if r.chance(1, 5) else 1), runs=runs))
        return out

    def nontrivial(self, ct, it):
        return it[-1][0] == 'sink' and len(it[-1]) > 1

    def oracle(self, ct, it):
        c = pfields(ct)
        refs = peg.reference(c['text'], c['le'], c['tab'], c['scanner'], c['filter'], c['g'], sink=c['sink'], runs=c['runs'])
        runs = [x for x in it[1:] if isinstance(x, list) and x[0] == 'run']
        fails = []
        if ends_with_stabilize(c['g']):
            # needs no reference: whichever attempt of the stabilising parse succeeded, the returned lexer is stable
            for ri, run in enumerate(runs, 1):
                kind, v, lx = run_result(run)
                if kind == 'ok' and lx.get('rec') == ['T']:
                    return [((ri,), 'invocation %d of %s on %s: the stabilising parse succeeded but the returned lexer still carries the recovering state'
                             % (ri, sexp.dump(c['g'])[:90], ' '.join(c['text'])))]
        for ri, (ref, run) in enumerate(zip(refs, runs), 1):
            kind, v, lx = run_result(run)
            where = 'invocation %d of %s on %s' % (ri, sexp.dump(c['g'])[:90], ' '.join(c['text']))
            if kind == 'panic' or (kind == 'diverged' and ref[0] != 'notcovered'):
                # (a divergence where the reference does not apply is left to the model comparison: the recorded stale-flag
                # finding can make a repeated recovering parser spin, and the model diverges with the code there)
                fails.append(((ri,), '%s: %s' % (where, kind))); return self.tag_known(fails)
            if ref[0] == 'notcovered':
                return fails
            if ref[0] == 'fail':
                if kind != 'err':
                    fails.append(((ri,), '%s: succeeded with %s, reference fails (%s)' % (where, sexp.dump(v), ref[1]))); return self.tag_known(fails)
                if ref[1] == 'recover' and v != 'recover':
                    fails.append(((ri,), '%s: failed with %s, reference: recovery error (no recovery token ahead)' % (where, sexp.dump(v)[:80]))); return self.tag_known(fails)
                continue
            if kind != 'ok':
                fails.append(((ri,), '%s: failed with %s, reference succeeds with %s leaving %s' % (where, sexp.dump(v)[:80], sexp.dump(ref[1]), ' '.join(ref[2])))); return self.tag_known(fails)
            if v != ref[1]:
                fails.append(((ri,), '%s: value %s, reference %s' % (where, sexp.dump(v), sexp.dump(ref[1])))); return self.tag_known(fails)
            if lx['rest'] != ref[2]:
                fails.append(((ri,), '%s: resumes at [%s], reference resumes at [%s]' % (where, ' '.join(lx['rest']), ' '.join(ref[2])))); return self.tag_known(fails)
        if refs and refs[-1][0] != 'notcovered' and len(refs) == len(runs) and not fails:
            nsink = len(it[-1]) - 1
            want = refs[-1][-1]
            if nsink != want:
                fails.append((None, '%d errors reported, reference expects exactly %d' % (nsink, want)))
        return self.tag_known(fails)

    def tag_known(self, fails):
        if peg.reference.known == 'stale-after-flag':
            return [(p, '[stale-after-flag] ' + w) for p, w in fails]
        return fails

    def classify(self, ct, f):
        what = str(f.get('detail', {}).get('what', ''))
        if f.get('kind') == 'oracle' and what.startswith('[stale-after-flag]'):
            return 'C12-recover-after-stale-flag'
        return None

PROP = C12()
