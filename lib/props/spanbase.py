"""Shared pieces of the span-layer properties (C17-C20): python spec over units."""
from .. import sexp, spangen
from ..runner import Prop

TB_SPAN = [
    'Rocq/Coq 8.16.1 kernel (coqc; coqchk in the thorough tier); no native_compute',
    'hand-written Gallina model coq/theories/{Text,Metrics,Span,Source}.v of tephra-span, tied to /repo by this correspondence run',
    'extraction: ExtrOcamlBasic only (its Extract Inductive for bool/option/unit/list/prod/sumbool/sumor/comparison), no Extract Constant, nat stays Peano; OCaml 4.13.1; ocaml/*.ml driver',
    'Rust harness harness/hspan (catch_unwind, printing) and python orchestration lib/',
    'unicode-width crate: oracle, its (len_utf8, width) table is compared with the model alphabet at start-up',
]

def parse_pos(s):
    b, l, c = s.split(':')
    return (int(b), int(l), int(c))

def parse_span(s):
    a, b = s.split('~')
    return (parse_pos(a), parse_pos(b))

def fmt_pos(p):
    return '%d:%d:%d' % p

class Units:
    """Python's own declarative view of a text: units and canonical positions."""
    def __init__(self, text, le, tab, off=(0, 0, 0)):
        self.U = spangen.units(text, le)
        self.P = spangen.canon_positions(text, le, tab, off)
        self.n = len(self.U)
        self.index = {p: k for k, p in enumerate(self.P)}
    def next(self, k): return self.P[k + 1] if k < self.n else None
    def prev(self, k): return self.P[k - 1] if k > 0 else None
    def islb(self, k): return k < self.n and self.U[k][0] == 'lb'
    def lend_k(self, k):
        j = k
        while j < self.n and self.U[j][0] != 'lb':
            j += 1
        return j
    def lstart_k(self, k):
        j = k
        while j > 0 and self.U[j - 1][0] != 'lb':
            j -= 1
        return j
    def after_pat(self, k, pat):
        if not pat:
            return self.P[k]
        acc = []
        j = k
        while j < self.n and len(acc) < len(pat):
            acc += self.U[j][1]; j += 1
        return self.P[j] if acc == pat else None
    def after_class(self, k, members):
        j = k
        while j < self.n and all(s in members for s in self.U[j][1]):
            j += 1
        return self.P[j] if j > k else None
    def next_after_class(self, k, members):
        if k < self.n and all(s in members for s in self.U[k][1]):
            return self.P[k + 1]
        return None

CLASSES = {
    'alpha': {'a', 'b', 'c', 'd', 'x', 'e2', 'w3', 'w4'},
    'space': {'sp', 'TAB'},
    'any': set(spangen.ALPHABET),
    'nl': {'CR', 'LF'},
    'wide': {'w3', 'w4', 'z3', 'z2'},
    'cr': {'CR'},
    'notlf': set(spangen.ALPHABET) - {'LF'},
}

def case_fields(ct):
    f = ct[2:]
    g = lambda k: sexp.field(f, k)
    return {
        'id': ct[1], 'le': g('le')[0], 'tab': int(g('tab')[0]),
        'off': tuple(int(x) for x in g('off')), 'text': g('text'),
        'bases': [tuple(int(x) for x in b) for b in g('bases')],
        'pats': g('pats'), 'classes': g('classes'), 'ops': g('ops'),
    }

def opt(p):
    return '-' if p is None else fmt_pos(p)

class SpanProp(Prop):
    harness = 'hspan'
    driver_mode = 'span'
    trusted_base = TB_SPAN

    def shrink(self, ct):
        c = case_fields(ct)
        text = c['text']
        for i in range(len(text)):
            t2 = text[:i] + text[i + 1:]
            yield spangen.span_case(c['id'], c['le'], c['tab'], t2, c['ops'], c['pats'], c['classes'], c['off'])
        if len(c['pats']) > 1:
            for p in c['pats']:
                yield spangen.span_case(c['id'], c['le'], c['tab'], text, c['ops'], [p], c['classes'], c['off'])
        if c['tab'] != 4:
            yield spangen.span_case(c['id'], c['le'], 4, text, c['ops'], c['pats'], c['classes'], c['off'])

    def tally(self, ct, it, dist):
        c = case_fields(ct)
        dist['le=' + c['le']] = dist.get('le=' + c['le'], 0) + 1
        k = 'len=%d' % len(c['text'])
        dist[k] = dist.get(k, 0) + 1
        if 'PANIC' in sexp.dump(it):
            dist['cases_with_panic'] = dist.get('cases_with_panic', 0) + 1
