"""C08 Error collection never changes the meaning of valid input."""
from .. import sexp, parsegen, spangen, lexsim, peg
from .gbase import GProp, pfields, mk_case, run_result
from .C02 import gen_list
from . import C12 as c12mod, C07 as c07mod

def strip_tags(e):
    while isinstance(e, list) and e and e[0] == 'tagged':
        e = e[2]
    return e

def gen_committed(r, depth=2):
    """recovering combinators only in committed positions: sequences and bracket/list bodies"""
    parts = []
    for _ in range(1 + r.below(3)):
        k = r.below(12)
        if k == 9:
            # the C07 family (its bodies, separators and stop parsers are speculative positions: no recovering combinator there)
            parts.append(c07mod.gen_rep(r, 1 + r.below(2)))
        elif k == 10 and depth > 0:
            # other committed positions: the right side of either / implies, under map / discard / sub / spanned / text / ctxpush /
            # raw / reqif T / cond T
            inner = gen_committed(r, depth - 1)
            w = r.below(12)
            if w >= 10: w = 0
            if w == 0:
                # the right side of either is a committed position; a left side that fails EARLIER, or LATER than the right one does
                parts.append(['either', r.choice([['seq', 'C', 'C'], ['both', ['repeat', 1, 'inf', ['any', 'A', 'B']], ['one', 'C']], ['seq', 'A', 'B', 'C'], ['seq', 'A', 'A', 'C']]), inner])
            elif w == 1: parts.append([r.choice(['implies', 'consequent']), ['one', 'C'], inner])
            elif w == 2: parts.append([r.choice(['map', 'ctxpush']), 1 + r.below(8), inner])
            elif w == 3: parts.append(['discard', inner])
            elif w == 4: parts.append(['sub', inner])
            elif w == 5: parts.append([r.choice(['spanned', 'text']), inner])
            elif w == 6: parts.append(['raw', inner])
            elif w == 7: parts.append(['reqif', 'T', inner])
            elif w == 8: parts.append(['cond', 'T', inner])
            else: parts.append(['center', ['maybe', ['one', 'C']], inner, ['maybe', ['one', 'Semi']]])
        elif k == 11:
            # nested recovering combinators with different strategies; stabilize around a sequence with a recovery in it
            inner = [r.choice(c12mod.RCOMB), c12mod.gen_rs(r), r.choice([['one', 'A'], ['seq', 'A', 'B']])]
            parts.append(r.choice([[r.choice(c12mod.RCOMB), c12mod.gen_rs(r), ['both', inner, ['one', 'B']]],
                                   ['stabilize', ['both', inner, ['maybe', ['one', 'B']]]],
                                   ['stabilize', gen_list(r)]]))
        elif k < 2: parts.append(parsegen.gen_c06(r, 1 + r.below(4)))
        elif k == 2:
            body = r.choice([['one', 'A'], ['seq', 'A', 'B']])
            if r.chance(1, 3):
                # a recovering combinator around a whole list (its items run under stabilize): the enclosing recovery point
                # must not leak into the list's own retries
                lst = gen_list(r)
                body = r.choice([lst, ['left', lst, ['one', 'Semi']], ['both', ['maybe', ['one', 'B']], lst]])
            parts.append([r.choice(c12mod.RCOMB), c12mod.gen_rs(r), body])
        elif k == 3: parts.append(['stabilize', ['recoverdef', c12mod.gen_rs(r), ['one', 'B']]])
        elif k == 4 and depth > 0:
            parts.append([r.choice(['bracket', 'bracketdef', 'bracketidx', 'bracketdefidx']), ['LK', 'LP'], gen_committed(r, depth - 1), ['RK', 'RP'], []])
        elif k == 5:
            g = gen_list(r)
            if r.chance(1, 2):
                # a recovering item parser (a committed position): e.g. list_default(recover_default(item, before sep/abort), ..)
                g = list(g)
                ab = g[-1]
                ii = 1 if g[0] in ('list', 'listdef') else 3
                g[ii] = [r.choice(['recoverdef', 'recover']), ['beforeany', 'Comma'] + list(ab), g[ii]]
                if not ab:
                    g[ii][1] = ['before', 'Comma']
            parts.append(g)
        elif k == 6: parts.append(['maybe', ['one', r.choice(['A', 'B', 'Semi'])]])
        elif k == 7: parts.append(['either', ['seq', 'A', 'B'], ['one', 'A']])
        else: parts.append(['one', r.choice(['A', 'B', 'Semi', 'Comma'])])
    g = parts[-1]
    for p in reversed(parts[:-1]):
        g = [r.choice(['both', 'right', 'left']), p, g]
    return g

class C08(GProp):
    id = 'C08'
    files = ['tephra-combinator/src/control.rs', 'tephra-combinator/src/bracket.rs', 'tephra-combinator/src/list.rs', 'tephra/src/context.rs']
    rule = ('seeded random grammars from the C06/C07 family extended with recover / recover_default / delayed variants / stabilize / '
            'bracket* / list* placed only in committed positions (sequences, bracket and list bodies), on valid and invalid random '
            'texts plus brackets whose inner parser reads less than the bracket contents, plus valid bracketed lists with trailing separators whose recovering items contain optional parts (nested sink-less regions); every case is executed twice, with Context::empty and with a collecting sink, and the two implementation runs '
            'are compared: (a) sink-less ok => identical value, end position and remaining stream with a sink and nothing reported; '
            '(b) sink ok with nothing reported => identical sink-less ok; (c) sink-less error => the same error returned or as '
            'first diagnostic (transform tags erased); non-trivial = a pair in which the sink-less run succeeds through a recovering '
            'combinator, or fails; distinct by grammar+text')
    supervise = 4.0

    def cases(self, tier, rng):
        out = []
        r = rng.fork('C08')
        n = 0
        for i in range(2000 if tier == 'quick' else 25000):
            g = gen_committed(r)
            t = spangen.random_text(r, ['a', 'a', 'b', 'comma', 'semi', 'sp', 'lk', 'rk', 'c'], 12 if tier == 'quick' else 24)
            if i % 8 == 7:
                # valid bracketed lists with a trailing separator whose recovering item has an optional part: the list's
                # speculative last-item attempt (an optional parse) runs the item's own optional parse inside it - two nested
                # sink-less regions, then a committed recovering combinator fails while the outer one is still open
                item = ['recoverdef', ['beforeany', 'Comma', 'RK'], r.choice([['both', ['maybe', ['one', 'A']], ['one', 'B']],
                                                                             ['right', ['maybe', ['one', 'A']], ['one', 'B']],
                                                                             ['both', ['reqif', 'F', ['one', 'A']], ['one', 'B']]])]
                g = ['bracketdef', ['LK'], [r.choice(['listdef', 'list']), item, 'Comma', ['RK']], ['RK'], []]
                segs = [r.choice([['a', 'b'], ['b'], ['a', 'sp', 'b']]) for _ in range(1 + r.below(3))]
                t = ['lk']
                for si, sg in enumerate(segs):
                    t += sg + (['comma', 'sp'] if si < len(segs) - 1 or r.chance(2, 3) else [])
                t += ['rk']
            if i % 8 == 3:
                # brackets whose inner parser succeeds but reads less than (or exactly, or nothing of) the bracket contents:
                # a success of the whole parse on which a sink must receive nothing
                inner = r.choice([['one', 'A'], ['maybe', ['one', 'A']], 'empty', ['repeat', 0, 2, ['one', 'A']], ['seqcount', 'A', 'B']])
                br = [r.choice(['bracket', 'bracketdef', 'bracketidx', 'bracketdefidx']), ['LK', 'LP'], inner, ['RK', 'RP'], r.choice([[], ['Semi']])]
                g = r.choice([br, ['both', br, ['maybe', ['one', 'Semi']]], ['both', ['maybe', ['one', 'B']], br], ['listdef', br, 'Comma', ['Semi']]])
                body = spangen.random_text(r, ['a', 'a', 'b', 'comma', 'sp', 'lk', 'rk'], r.below(5))
                t = r.choice([[], ['b']]) + ['lk'] + body + ['rk'] + r.choice([[], ['semi'], ['comma', 'lk', 'a', 'rk']])
            if i % 16 == 5:
                # either(L, R): R (a committed position) recovers; both alternatives fail on the text, L at the same token as R,
                # earlier, or LATER than R - whichever error the sink-less run returns must be the first diagnostic with a sink
                x, y = r.choice([('B', 'C'), ('A', 'B'), ('B', 'A')])
                R = [r.choice(c12mod.RCOMB), r.choice([['before', 'Semi'], ['beforeany', 'Semi', 'Comma'], ['after', 'Semi']]), ['seq', 'A', y]]
                L = r.choice([['seq', 'A', x, 'C'], ['seq', 'A', x], ['both', ['one', 'A'], ['both', ['one', x], ['one', 'C']]], ['seq', 'C', 'C'], ['one', x]])
                g = r.choice([['either', L, R], ['both', ['either', L, R], ['maybe', ['one', 'Semi']]], ['either', L, ['both', R, ['one', 'Semi']]]])
                t = ['a', r.choice(['b', 'a', 'c']).lower(), r.choice(['b', 'a', 'semi', 'c'])] + spangen.random_text(r, ['semi', 'comma', 'a', 'sp'], 3)
            # make a good share of the texts valid for simple grammars
            n += 1
            pushed = [1 + r.below(4) for _ in range(r.below(3))]
            out.append(parsegen.parse_case('c%da' % n, t, g, sink=0, pushed=pushed))
            out.append(parsegen.parse_case('c%db' % n, t, g, sink=1, pushed=pushed))
        return out

    def nontrivial(self, ct, it):
        s = sexp.dump(pfields(ct)['g'])
        return any(w in s for w in ('recover', 'stabilize', 'bracket', 'list'))

    def extra_checks(self, ctx):
        fails = []
        cases, impl = ctx['cases'], ctx['impl']
        off = len(cases) - 2 * (len(cases) // 2)
        i = off
        # corpus cases (if any) come first and are not paired; generated cases are adjacent pairs
        while i + 1 < len(cases):
            a, b = impl[i], impl[i + 1]
            ca = cases[i]
            i += 2
            if a is None or b is None or a.startswith('(DIVERGED') or b.startswith('(DIVERGED') or a.startswith('(CRASHED') or b.startswith('(CRASHED'):
                continue
            ta, tb = sexp.parse(a), sexp.parse(b)
            ka, va, la = run_result(ta[1]); kb, vb, lb = run_result(tb[1])
            sink_b = tb[-1][1:]
            def fail(msg):
                fails.append({'kind': 'oracle', 'case': ca, 'detail': {'what': msg, 'nosink': a[:300], 'sink': b[:300]}})
            if ka == 'ok':
                if kb != 'ok' or va != vb or la != lb:          # the whole returned lexer: cursor, spans, filter, recover state, stream
                    fail('the sink-less parse succeeds with %s (rest [%s]) but with a sink the result is %s' % (sexp.dump(va)[:100], ' '.join(la['rest']), b[:160]))
                elif sink_b:
                    fail('the sink-less parse succeeds but with a sink %d errors were reported' % len(sink_b))
            elif ka == 'err':
                if kb == 'err':
                    if strip_tags(vb) != strip_tags(va) and not (sink_b and strip_tags(sink_b[0]) == strip_tags(va)):
                        fail('the sink-less parse fails with %s; with a sink it fails with %s and the first diagnostic is %s'
                             % (sexp.dump(va)[:120], sexp.dump(vb)[:120], sexp.dump(sink_b[0])[:120] if sink_b else 'absent'))
                elif kb == 'ok':
                    if not sink_b:
                        fail('the sink-less parse fails with %s but with a sink it succeeds and reports nothing' % sexp.dump(va)[:120])
                    elif strip_tags(sink_b[0]) != strip_tags(va):
                        fail('the sink-less parse fails with %s; the first diagnostic with a sink is %s' % (sexp.dump(va)[:120], sexp.dump(sink_b[0])[:120]))
            if kb == 'ok' and not sink_b and ka != 'ok':
                fail('with a sink the parse succeeds reporting nothing, without a sink it gives %s' % a[:160])
        return fails

PROP = C08()
