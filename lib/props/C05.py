"""C05 Lookahead, cloning and sub-lexing are unobservable in the token stream."""
from .. import sexp, parsegen, spangen, lexsim
from .parsebase import ParseProp
from .C04 import fields, final_config, obs_of, FILTERS

ALPHA = ['a', 'b', 'c', 'sp', 'sp', 'TAB', 'LF', 'comma', 'lp', 'rp', 'bang']
KSETS = [['A'], ['B'], ['A', 'B'], ['Comma'], ['Ws'], ['RP'], ['C', 'Ws'], []]

def random_ops(r, n, depth=0):
    ops = []
    for _ in range(n):
        k = r.below(16)
        if k < 4: ops.append('next')
        elif k < 6: ops.append('peek')
        elif k == 6: ops.append(['nextif'] + r.choice(KSETS))
        elif k == 7: ops.append(['nextifeq', r.choice(['A', 'B', 'Ws', 'Comma']), 0])
        elif k == 8: ops.append(['advto'] + r.choice(KSETS))
        elif k == 9: ops.append(['advupto'] + r.choice(KSETS))
        elif k == 10: ops.append(['setfilter', r.choice(FILTERS)])
        elif k == 11: ops.append(r.choice(['sublex', 'intosub']))
        elif k == 12: ops.append(r.choice(['query', 'emptyf', 'emptyf']))
        elif k in (13, 14) and depth < 2: ops.append(['clone'] + random_ops(r, 1 + r.below(3), depth + 1))
        else: ops.append('next')
    return ops

class Known(Exception):
    pass

class C05(ParseProp):
    id = 'C05'
    files = ['tephra/src/lexer.rs']
    rule = ('seeded random operation histories (length <= tier bound) over next/peek/next_if/next_if_eq/advance_to/'
            'advance_up_to/set_filter/start_sublex/into_sublexer/clone-with-nested-ops/queries, plus all length-3 '
            'histories over a core op set (incl. is_empty_with_filter; peek_parse_span and peek_cursor_pos are observed after every operation), on random texts with filtered tokens and a rejected char, with plain, counting '
            '(tokens expose the number of scans) and modal scanners; the delivered (token, span) sequence is compared with '
            'a reference lexer that only advances under the same filter changes, clones are drained to exhaustion; '
            'non-trivial = history with a lookahead or clone or sublex before a later delivery; distinct by case')
    assumptions = ['scanners are the three harness scanners']

    def cases(self, tier, rng):
        out = []
        r = rng.fork('C05')
        n = 0
        core = ['next', 'peek', ['nextif', 'A'], ['advupto', 'B'], ['setfilter', 'none'], ['setfilter', ['drop', 'Ws']], 'sublex',
                ['clone', 'next', 'next'], ['advto', 'Comma']]
        texts = [['a', 'sp', 'b'], ['sp', 'a', 'comma', 'sp', 'b', 'sp'], ['a', 'bang', 'b'], ['a', 'sp', 'sp', 'comma', 'b', 'a']]
        lim = 2 if tier == 'quick' else 3
        import itertools
        for t in texts:
            for k in range(1, lim + 1):
                for ops in itertools.product(core, repeat=k):
                    n += 1
                    out.append(parsegen.lex_case('c%d' % n, 'counting', t, [['filter', ['drop', 'Ws']]], list(ops) + ['drain']))
        for i in range(1500 if tier == 'quick' else 20000):
            t = spangen.random_text(r, ALPHA, 14)
            build = []
            if r.chance(1, 2):
                build.append(['metrics', r.choice(['lf', 'crlf']), 1 + r.below(8)])
            if r.chance(2, 3):
                build.append(['filter', r.choice(FILTERS)])
            n += 1
            out.append(parsegen.lex_case('c%d' % n, r.choice(['plain', 'counting', 'counting', 'modal']), t, build,
                                         random_ops(r, 2 + r.below(7 if tier == 'quick' else 10)) + ['drain']))
        return out

    def nontrivial(self, ct, it):
        s = sexp.dump(fields(ct)['ops'])
        return any(w in s for w in ('peek', 'clone', 'sublex', 'intosub', 'nextif', 'advupto')) and s.count('next') >= 1

    # ---- oracle: replay the history on the reference lexer --------------------------------
    def replay(self, ref, ops, obs, where, fails, state):
        """state: dict(behind=bool) tracks the real lexer's eager-skip condition for the known class"""
        for op, e in zip(ops, obs):
            o = obs_of(e)
            name = op if isinstance(op, str) else op[0]
            if o['res'] == 'PANIC':
                fails.append((where, '%s panics' % name)); raise StopIteration
            def deliver_check(t):
                want = '-' if t is None else t['tok']
                if o['res'] != want:
                    fails.append((where, '%s delivered %s, the advance-only reference delivers %s' % (name, o['res'], want)))
                    raise StopIteration
                if t is not None and o.get('ts') != t['span']:
                    fails.append((where, 'token_span after %s: got %s, expected %s' % (name, o.get('ts'), t['span'])))
                    raise StopIteration
                if t is not None:
                    state['delivered'] = True
            if name == 'next':
                deliver_check(ref.next())
            elif name == 'peek':
                t = ref.peek()
                want = '-' if t is None else t['tok']
                if o['res'] != want:
                    fails.append((where, 'peek saw %s, reference %s' % (o['res'], want))); raise StopIteration
            elif name == 'nextif':
                t = ref.peek()
                deliver_check(ref.next() if (t is not None and t['kind'] in op[1:]) else None)
            elif name == 'nextifeq':
                t = ref.peek()
                deliver_check(ref.next() if (t is not None and t['kind'] == op[1] and t['n'] == int(op[2])) else None)
            elif name == 'advto':
                found = False
                while True:
                    t = ref.next()
                    if t is None: break
                    state['delivered'] = True
                    if t['kind'] in op[1:]:
                        found = True; break
                if o['res'] != ('T' if found else 'F'):
                    fails.append((where, 'advance_to returned %s, reference %s' % (o['res'], found))); raise StopIteration
            elif name == 'advupto':
                found = False
                while True:
                    t = ref.peek()
                    if t is None: break
                    if t['kind'] in op[1:]:
                        found = True; break
                    ref.next(); state['delivered'] = True
                if o['res'] != ('T' if found else 'F'):
                    fails.append((where, 'advance_up_to returned %s, reference %s' % (o['res'], found))); raise StopIteration
            elif name == 'setfilter':
                newf = None if op[1] == 'none' else op[1]
                # known class: the real lexer has eagerly skipped tokens (it was "behind": nothing delivered since
                # the start / the last sub-lex mark) that the new filter would keep
                ref.set_filter(newf)
            elif name in ('sublex', 'intosub'):
                state['delivered'] = False
                ref.sublex()
            elif name == 'query':
                pass
            elif name == 'emptyf':
                # is_empty_with_filter may say 'empty' only when nothing is deliverable (it looks ahead like peek)
                ref.buffer_next()
                if o['res'] == 'T' and ref.peek() is not None:
                    fails.append((where, 'is_empty_with_filter returned true although %s is still deliverable' % ref.peek()['tok'])); raise StopIteration
            elif name == 'drain':
                want = [[t['tok'], t['span'], t['range']] for t in ref.drain()]
                if o['res'] != want:
                    fails.append((where, 'drain delivered %s, reference %s' % (sexp.dump(o['res'])[:160], sexp.dump(want)[:160])))
                    raise StopIteration
            elif name == 'clone':
                cl = ref.clone()
                st2 = dict(state)
                inner = e[1]
                self.replay(cl, op[1:], inner, where, fails, st2)
                drained = e[2][1:]
                want = [[t['tok'], t['span'], t['range']] for t in cl.drain()]
                if drained != want:
                    fails.append((where, 'clone drained %s, reference %s' % (sexp.dump(drained)[:160], sexp.dump(want)[:160])))
                    raise StopIteration

    def oracle(self, ct, it):
        c = fields(ct)
        le, tab, flt = final_config(c['build'])
        if any(b[0] in ('metrics', 'le', 'tab') for b in c['build'][1:]) and any(b[0] == 'filter' for b in c['build']):
            pass
        toks = lexsim.scan_all(c['text'], le, tab, c['scanner'])
        met = [False]
        ref = lexsim.SkipLexer(toks, None, met)
        for b in c['build']:
            if b[0] == 'filter':                          # Lexer::with_filter(f): set_filter + buffer_next, in builder order
                ref.set_filter(None if b[1] == 'none' else b[1]); ref.buffer_next()
        fails = []
        try:
            self.replay(ref, c['ops'], it[2:], None, fails, {'delivered': False})
        except StopIteration:
            pass
        if met[0]:
            # a token that a filter change made deliverable again had been skipped eagerly (nothing delivered since the
            # start / the last sub-lex mark) and the advance-only lexer would have delivered it: the recorded finding. The
            # reference passed over exactly those tokens; every other difference is reported as usual.
            fails = fails + [(None, '[eager-skip] a token skipped eagerly before a filter change is never delivered although the new filter keeps it')]
        return fails

    def classify(self, ct, f):
        what = str(f.get('detail', {}).get('what', ''))
        if f.get('kind') == 'oracle' and what.startswith('[eager-skip]'):
            return 'C05-filter-change-after-eager-skip'
        return None

    def shrink(self, ct):
        c = fields(ct)
        t, ops = c['text'], c['ops']
        for i in range(len(ops) - 1):
            yield parsegen.lex_case(ct[1], c['scanner'], t, c['build'], ops[:i] + ops[i + 1:])
        for i in range(len(t)):
            yield parsegen.lex_case(ct[1], c['scanner'], t[:i] + t[i + 1:], c['build'], ops)
        if c['build']:
            for i in range(len(c['build'])):
                yield parsegen.lex_case(ct[1], c['scanner'], t, c['build'][:i] + c['build'][i + 1:], ops)

PROP = C05()
