"""C07 Repetition honours its bounds, is greedy, and never strands a separator."""
from .. import sexp, parsegen, spangen, lexsim, peg
from .gbase import GProp, pfields, mk_case, run_result
from .C06 import C06, TEXT_ALPHA

REPS = ['repeat', 'repeatcount', 'repeatuntil', 'repeatcountuntil', 'intersperse', 'interspersecount',
        'intersperseuntil', 'interspersecountuntil', 'interspersedef']

def gen_rep(r, size):
    k = r.choice(REPS)
    lo = r.below(5)
    hi = r.choice(['inf', 'inf', lo, lo + 1, lo + 2, 4])
    if hi != 'inf' and hi > 4: hi = 4          # the property's bounds: 0 <= low <= high <= 4, or high unbounded
    if hi != 'inf' and hi < lo:
        hi = lo
    item = parsegen.gen_item(r, size)
    sep = r.choice([['one', 'Comma'], ['one', 'Comma'], ['maybe', ['one', 'Comma']], ['seq', 'Comma', 'Comma'], 'empty', ['one', 'B'],
                    # separators from the wider C06 family: choice, sequence, nullable count, predicate, conditional forms
                    ['either', ['one', 'Comma'], ['one', 'Semi']], ['both', ['one', 'Comma'], ['maybe', ['one', 'Comma']]], ['seqcount', 'Comma', 'Comma'],
                    ['pred', ['is', 'Comma']], ['anyidx', 'Comma', 'Semi'], ['implies', ['one', 'Comma'], ['maybe', ['one', 'Semi']]],
                    ['cond', 'T', ['one', 'Comma']], ['reqif', 'F', ['one', 'Comma']], ['discard', ['one', 'Comma']], ['one', 'A']])
    # stop parsers, including ones that overlap the item / separator grammar (the stop parser must be tried AT the item
    # boundary, before the separator: a stop that matches an item, or a separator followed by an item, tells the two apart)
    stop = r.choice([['one', 'C'], ['one', 'C'], ['any', 'C', 'Comma'], 'eot', ['seq', 'A', 'C'], ['both', ['one', 'Comma'], ['one', 'C']],
                     ['one', 'B'], ['one', 'A'], ['both', ['one', 'Comma'], ['one', 'B']], ['both', ['one', 'Comma'], ['one', 'A']],
                     ['seq', 'Comma', 'A'],
                     # stops from the wider family, nullable ones included (a nullable stop succeeds at once)
                     ['pred', ['is', 'C']], ['either', ['one', 'C'], ['one', 'Semi']], ['center', ['maybe', ['one', 'Comma']], ['one', 'C'], 'empty'],
                     ['maybe', ['one', 'C']], 'empty', ['seqcount', 'C'], ['cond', 'F', ['one', 'C']], ['anyidx', 'C', 'Semi']])
    if k in ('repeat', 'repeatcount'): return [k, lo, hi, item]
    if k in ('repeatuntil', 'repeatcountuntil'): return [k, lo, hi, stop, item]
    if k in ('intersperse', 'interspersecount'): return [k, lo, hi, item, sep]
    if k in ('intersperseuntil', 'interspersecountuntil'): return [k, lo, hi, stop, item, sep]
    return [k, lo, hi, item, 'Comma']

class C07(C06):
    id = 'C07'
    files = ['tephra-combinator/src/repeat.rs']
    rule = ('seeded random repetition parsers: each of the nine repeat/intersperse variants x bounds 0 <= low <= high <= 4 and '
            'unbounded x non-nullable item parsers from the C06 family x separators (token, optional token, double token, empty, '
            'letter) x stop parsers (disjoint from and overlapping with the item and separator grammar), alone and embedded in sequences, on random token strings with runs of items, dangling '
            'separators, stop tokens and a rejected char; accept/reject, value (items or count), remaining stream compared with a '
            'python greedy-loop reference; non-trivial = >= 1 item taken and the repetition stopped before the end of the text, or '
            'a failure; distinct by case')

    def cases(self, tier, rng):
        out = []
        r = rng.fork('C07')
        n = 0
        alpha = ['a', 'a', 'a', 'b', 'c', 'comma', 'comma', 'comma', 'sp', 'bang', 'semi', 'semi']
        for i in range(3000 if tier == 'quick' else 40000):
            g = gen_rep(r, 1 + r.below(4))
            k = r.below(6)
            if k == 0: g = ['both', g, parsegen.gen_c06(r, 2)]
            elif k == 1: g = ['both', ['maybe', ['one', 'B']], g]
            elif k in (4, 5):
                # the same repetition object re-invoked after an invocation that failed part-way:
                # a repetition with low >= 1 under an alternative inside an enclosing repetition
                g = list(g)
                if g[1] == 0:
                    g[1] = 1 + r.below(2)
                    if g[2] != 'inf' and g[2] < g[1]:
                        g[2] = g[1]
                g = ['repeat', 0, 'inf', ['either', ['left', g, ['one', 'Semi']], ['any', 'A', 'B', 'C', 'Comma', 'Semi']]]
            t = spangen.random_text(r, alpha, 14 if tier == 'quick' else 30)
            if k == 2:
                # long runs of items: every variant x every (low, high) with the text holding fewer, exactly and more items than
                # high (the upper bound must stop the repetition, the counting variants must agree with the collecting ones)
                kind = r.choice(REPS)
                lo = r.below(3); hi = r.choice(['inf', lo, lo + 1, lo + 2, 1, 2])
                if hi != 'inf' and hi < lo: hi = lo
                item = r.choice([['one', 'A'], ['any', 'A', 'B']])
                stop = r.choice([['one', 'Semi'], ['one', 'C']])
                if kind in ('repeat', 'repeatcount'): g = [kind, lo, hi, item]; seps = []
                elif kind in ('repeatuntil', 'repeatcountuntil'): g = [kind, lo, hi, stop, item]; seps = []
                elif kind in ('intersperse', 'interspersecount'): g = [kind, lo, hi, item, ['one', 'Comma']]; seps = ['comma']
                elif kind in ('intersperseuntil', 'interspersecountuntil'): g = [kind, lo, hi, stop, item, ['one', 'Comma']]; seps = ['comma']
                else: g = [kind, lo, hi, item, 'Comma']; seps = ['comma']
                nitems = r.below(6)
                t = []
                for ii in range(nitems):
                    t += [r.choice(['a', 'a', 'b'])] + (['sp'] if r.chance(1, 4) else [])
                    if ii < nitems - 1 or r.chance(1, 3):
                        t += seps
                t += r.choice([[], ['semi'], ['c'], ['bang']])
            if k == 3:
                # until-variants whose stop parser overlaps the items / "separator then item": where the stop parser is
                # probed (at the item boundary, before the separator) decides the result
                lo = r.below(3); hi = r.choice(['inf', 'inf', lo + 1, lo + 2])
                item = r.choice([['any', 'A', 'B'], ['one', 'A'], ['either', ['one', 'A'], ['one', 'B']]])
                stop = r.choice([['one', 'B'], ['both', ['one', 'Comma'], ['one', 'B']], ['seq', 'Comma', 'A'], ['one', 'A']])
                g = [r.choice(['intersperseuntil', 'interspersecountuntil']), lo, hi, stop, item, r.choice([['one', 'Comma'], ['maybe', ['one', 'Comma']]])]
                t = spangen.random_text(r, ['a', 'a', 'b', 'b', 'comma', 'comma', 'comma', 'sp', 'c'], 10)
            n += 1
            out.append(parsegen.parse_case('c%d' % n, t, g, flt=r.choice([['drop', 'Ws'], ['drop', 'Ws'], 'none']), sink=r.below(2)))
        return out

    def nontrivial(self, ct, it):
        kind, v, lx = run_result(it[1])
        if kind == 'err':
            return True
        if kind != 'ok':
            return False
        s = sexp.dump(v)
        return ('(tok' in s or '(nat' in s) and len(lx.get('rest', [])) > 0

PROP = C07()
