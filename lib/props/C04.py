"""C04 Tokens tile the source; a filter only deletes tokens."""
from .. import sexp, parsegen, spangen, lexsim
from .parsebase import ParseProp

ALPHA = ['a', 'b', 'sp', 'TAB', 'LF', 'CR', 'comma', 'lp', 'rp', 'e2', 'w3', 'bang']
FILTERS = ['none', ['drop', 'Ws'], ['drop', 'A'], ['keep', 'A', 'B'], ['drop', 'Ws', 'Comma', 'U'], ['keep', 'Ws'], ['drop', 'LP', 'RP'],
           ['keep'], ['drop', 'B', 'Ws']]

def fields(ct):
    f = ct[2:]
    return {'scanner': sexp.field(f, 'scanner')[0], 'text': sexp.field(f, 'text'),
            'build': sexp.field(f, 'build'), 'ops': sexp.field(f, 'ops')}

def final_config(build):
    le, tab, flt = 'lf', 4, None
    for b in build:
        if b[0] == 'metrics':
            le, tab = b[1], int(b[2])
        elif b[0] == 'le':
            le = b[1]
        elif b[0] == 'tab':
            tab = int(b[1])
        elif b[0] == 'filter':
            flt = None if b[1] == 'none' else b[1]
    return le, tab, flt

def obs_of(entry):
    """(NAME RESULT (ts ..) (ps ..) (cur ..) (pk ..) (emp ..) (flt ..)) -> dict"""
    d = {'name': entry[0], 'res': entry[1] if len(entry) > 1 else None}
    for x in entry[2:]:
        if isinstance(x, list) and len(x) == 2:
            d[x[0]] = x[1]
    return d

class C04(ParseProp):
    id = 'C04'
    files = ['tephra/src/lexer.rs']
    rule = ('exhaustive small texts and seeded random texts (<= 24 chars) over an alphabet with filtered-able whitespace, '
            'brackets, multi-byte/wide chars and a scanner-rejected char; plain, counting and modal scanners; 9 filter '
            'predicates; LF/CR/CRLF and several tab widths; the lexer is advanced with next() to exhaustion (+2 extra calls) '
            'observing token, token_span, parse_span each time, with the metrics configured before and after the filter, histories peek / sub-lex mark / wider filter / deliveries, and drained with iter_with_spans (clipped text ranges); plus histories that install another filter mid-stream after deliveries and a look-ahead, then drain, and histories that start a new parse with start_sublex / into_sublexer with and without a look-ahead buffered; '
            'non-trivial = >= 3 tokens and (a filter that removes something or a rejected char); distinct by case')
    assumptions = ['scanners are the three harness scanners (every token consumes at least one character)']

    def cases(self, tier, rng):
        out = []
        n = 0
        def add(scanner, le, tab, flt, t):
            nonlocal n
            n += 1
            ntok = len(parsegen.tokens_of(t)) + 3
            build = [['metrics', le, tab], ['filter', flt]]
            out.append(parsegen.lex_case('c%d' % n, scanner, t, build, ['next'] * ntok))
            n += 1
            out.append(parsegen.lex_case('c%d' % n, scanner, t, build, ['drain', 'next']))
        small = ['a', 'sp', 'comma', 'bang', 'lp', 'rp'] if tier == 'quick' else ['a', 'b', 'sp', 'TAB', 'comma', 'bang', 'lp']
        for t in spangen.all_texts(small, 3 if tier == 'quick' else 4):
            for flt in (FILTERS[:4] if tier == 'quick' else FILTERS):
                add('counting', 'lf', 4, flt, t)
        r = rng.fork('C04')
        for i in range(500 if tier == 'quick' else 6000):
            t = spangen.random_text(r, ALPHA, 24)
            add(r.choice(['plain', 'counting', 'counting', 'modal']), r.choice(['lf', 'cr', 'crlf']), 1 + r.below(9),
                r.choice(FILTERS), t)
        # metrics configurations installed AFTER the filter (the eager filter scan has already buffered the first token under
        # the default metrics): texts whose first delivered token depends on the metrics (tab, CR / LF line breaks)
        for i in range(300 if tier == 'quick' else 3000):
            head = r.choice([['TAB'], ['TAB', 'sp'], ['CR'], ['LF', 'TAB'], ['sp', 'TAB'], ['a', 'TAB']])
            t = head + spangen.random_text(r, ['a', 'b', 'sp', 'comma', 'TAB', 'LF', 'CR'], 10)
            flt = r.choice(['none', ['drop', 'Comma'], ['keep', 'Ws', 'A'], ['drop', 'Ws'], ['drop', 'A']])
            le = r.choice(['lf', 'cr', 'crlf']); tab = r.choice([1, 2, 3, 5, 8])
            second = r.choice([[['metrics', le, tab]], [['tab', tab]], [['le', le]], [['le', le], ['tab', tab]]])
            ntok = len(parsegen.tokens_of(t)) + 2
            n += 1
            out.append(parsegen.lex_case('c%d' % n, r.choice(['plain', 'counting']), t, [['filter', flt]] + second, ['next'] * ntok))
        # a filter installed mid-stream, after deliveries and a look-ahead: from then on the deliveries are the rest of the
        # unfiltered sequence minus what the NEW filter rejects (at least one token has been delivered since the start, so
        # the lexer is not at a parse start: the recorded C05 finding about eager skips is out of play)
        for i in range(400 if tier == 'quick' else 4000):
            t = spangen.random_text(r, ['a', 'b', 'sp', 'sp', 'comma', 'lp', 'TAB', 'LF'], 14)
            k = 1 + r.below(3)
            ops = ['next'] * k + (['peek'] if r.chance(3, 4) else []) + [['setfilter', r.choice(FILTERS)]]
            if r.chance(1, 3):
                ops += ['next', 'peek', ['setfilter', r.choice(FILTERS)]]
            ops += ['drain', 'next']
            n += 1
            out.append(parsegen.lex_case('c%d' % n, r.choice(['plain', 'counting', 'modal']), t,
                                         [['metrics', r.choice(['lf', 'crlf']), 4], ['filter', r.choice(FILTERS[1:])]], ops))
        # a new parse started by a sub-lex mark, with and without a look-ahead buffered: the parse span of the new parse runs
        # from the start of ITS first delivered token
        for i in range(300 if tier == 'quick' else 3000):
            t = spangen.random_text(r, ['a', 'b', 'sp', 'sp', 'comma', 'TAB', 'LF'], 14)
            ops = ['next'] * r.below(3) + ([r.choice(['peek', 'peek', 'emptyf'])] if r.chance(2, 3) else []) + [r.choice(['sublex', 'intosub'])] + ['next'] * (1 + r.below(3))
            if r.chance(1, 3):
                ops += ['peek', r.choice(['sublex', 'intosub']), 'next', 'next']
            n += 1
            out.append(parsegen.lex_case('c%d' % n, r.choice(['plain', 'counting', 'modal']), t,
                                         [['metrics', r.choice(['lf', 'crlf']), 4], ['filter', r.choice(FILTERS[1:5])]], ops))
        # a look-ahead across filtered tokens, then a sub-lex mark, then a filter that shows the skipped tokens: the new parse
        # starts with the first token delivered after the mark, whichever filter is then in force (the mark with a look-ahead
        # buffered skips nothing, so the recorded C05 finding is out of play)
        for i in range(250 if tier == 'quick' else 2500):
            t = spangen.random_text(r, ['a', 'b', 'sp', 'sp', 'comma', 'TAB'], 4) + ['a', 'sp', 'b'] + spangen.random_text(r, ['a', 'b', 'sp', 'comma', 'LF'], 5)
            ops = ['next'] * (1 + r.below(3)) + ['peek', r.choice(['sublex', 'intosub']), ['setfilter', r.choice(['none', ['keep', 'Ws', 'A', 'B'], ['drop', 'Comma']])]]
            ops += ['next'] * (1 + r.below(3)) + ['drain', 'next']
            n += 1
            out.append(parsegen.lex_case('c%d' % n, r.choice(['plain', 'counting']), t, [['metrics', r.choice(['lf', 'crlf']), 4], ['filter', ['drop', 'Ws']]], ops))
        return out

    def nontrivial(self, ct, it):
        c = fields(ct)
        toks = parsegen.tokens_of(c['text'])
        le, tab, flt = final_config(c['build'])
        return len(toks) >= 3 and ('bang' in c['text'] or any(not lexsim.keeps(flt, k) for k, _, _ in toks))

    def oracle(self, ct, it):
        c = fields(ct)
        # this oracle reads next / peek / sublex / intosub / setfilter / drain only (what C04 generates); histories with other
        # operations belong to C05's oracle, and more than one filter at build time to C05's known-finding class
        if any((op if isinstance(op, str) else op[0]) not in ('next', 'peek', 'sublex', 'intosub', 'setfilter', 'drain', 'emptyf', 'query') for op in c['ops']):
            return []
        if sum(1 for b in c['build'] if b[0] == 'filter') > 1:
            return []
        le, tab, flt = final_config(c['build'])
        toks = lexsim.scan_all(c['text'], le, tab, c['scanner'])
        ref = lexsim.RefLexer(toks, 0, flt)
        fails = []
        first_start = None
        for ei, e in enumerate(it[2:], 2):
            o = obs_of(e)
            if o['res'] == 'PANIC':
                fails.append(((ei,), '%s panics' % o['name'])); break
            if o['name'] == 'next':
                t = ref.next()
                want = '-' if t is None else t['tok']
                if o['res'] != want:
                    fails.append(((ei,), 'delivery %d: got %s, sequential scan with the filter gives %s' % (ei - 1, o['res'], want))); break
                if t is not None:
                    if first_start is None:
                        first_start = lexsim.fmt_pos(t['start'])
                    if o['ts'] != t['span']:
                        fails.append(((ei,), 'token_span of %s: got %s, the scanner matched %s' % (t['tok'], o['ts'], t['span']))); break
                    wps = first_start + '~' + lexsim.fmt_pos(t['end'])
                    if o['ps'] != wps:
                        fails.append(((ei,), 'parse_span after %s: got %s, expected %s' % (t['tok'], o['ps'], wps))); break
            elif o['name'] == 'peek':
                t = ref.peek()
                want = '-' if t is None else t['tok']
                if o['res'] != want:
                    fails.append(((ei,), 'peek %d: got %s, sequential scan with the filter gives %s' % (ei - 1, o['res'], want))); break
            elif o['name'] in ('sublex', 'intosub'):
                first_start = None           # a new parse starts here
            elif o['name'] == 'setfilter':
                if ref.first() is None and ref.i < len(toks):
                    break          # nothing deliverable under the old filter: the lexer has scanned to the end (C05's domain)
                f2 = c['ops'][ei - 2][1]
                ref.flt = None if f2 == 'none' else f2
            elif o['name'] == 'drain':
                want = [[t['tok'], t['span'], t['range']] for t in ref.drain()]
                if o['res'] != want:
                    fails.append(((ei,), 'drain: got %s, expected %s' % (sexp.dump(o['res'])[:200], sexp.dump(want)[:200]))); break
        # tiling of the unfiltered sequence (python-side sanity of the reference itself)
        return fails

    def shrink(self, ct):
        c = fields(ct)
        t = c['text']
        for i in range(len(t)):
            yield parsegen.lex_case(ct[1], c['scanner'], t[:i] + t[i + 1:], c['build'], c['ops'])

PROP = C04()
