"""C18 Line widening and splitting partition a span into whole source lines."""
from .. import sexp, spangen
from .spanbase import SpanProp, case_fields, parse_pos, parse_span, Units, fmt_pos

ALPHA = ['a', 'sp', 'TAB', 'e2', 'CR', 'LF']

def fmt_span(a, b):
    return fmt_pos(a) + '~' + fmt_pos(b)

def expected_lines(u, i, j):
    """(widen, pieces) for the span from unit index i to j."""
    widen = (u.P[u.lstart_k(i)], u.P[u.lend_k(j)])
    pieces = []
    k = i
    while True:
        e = u.lend_k(k)
        if e >= j:
            pieces.append((u.P[k], u.P[j])); break
        pieces.append((u.P[k], u.P[e]))
        k = e + 1
    return widen, pieces

class C18(SpanProp):
    id = 'C18'
    files = ['tephra-span/src/span.rs', 'tephra-span/src/metrics.rs', 'tephra-span/src/source.rs']
    rule = ('every text up to the tier bound over {a,sp,TAB,e2,CR,LF} x {LF,CR,CRLF}; per text every canonical span through '
            'widen_to_line, split_lines (all pieces) and len() (with size_hint) before every next() and after exhaustion; plus seeded texts of up to 12 lines with breaks placed as units, 4-byte / wide / zero-width characters and tab widths 1..16; '
            'non-trivial = text with >= 1 line break and >= 3 positions; distinct by (text, metrics)')
    exhaustive = {'quick': True, 'thorough': True}
    vary_order = False
    assumptions = ['span endpoints are canonical positions of the text; source without start offset (offsets are C20)']

    def cases(self, tier, rng):
        out = []
        n = 0
        maxlen = 4 if tier == 'quick' else 6
        for le in ('lf', 'cr', 'crlf'):
            for t in spangen.all_texts(ALPHA, maxlen):
                n += 1
                out.append(spangen.span_case('c%d' % n, le, 4, t, ['lines']))
        # seeded longer texts: line breaks placed as units (so that CRLF breaks really occur under crlf), 4-byte / wide /
        # zero-width characters next to breaks, tab widths 1..16, up to ~12 lines
        r = rng.fork('C18')
        lbs = {'lf': ['LF'], 'cr': ['CR'], 'crlf': ['CR', 'LF']}
        for i in range(150 if tier == 'quick' else 1500):
            le = r.choice(['lf', 'cr', 'crlf'])
            t = []
            for _ in range(1 + r.below(12)):
                t += spangen.random_text(r, ['a', 'sp', 'TAB', 'e2', 'w3', 'w4', 'z3', 'z2'] + (['CR', 'LF'] if r.chance(1, 4) else []), 3)
                if r.chance(4, 5): t += lbs[le]
            t = t[:22]
            n += 1
            out.append(spangen.span_case('c%d' % n, le, 1 + r.below(16), t, ['lines']))
        return out

    def nontrivial(self, ct, it):
        c = case_fields(ct)
        return len(c['bases']) >= 3 and any(b[1] > 0 for b in c['bases'])

    def oracle(self, ct, it):
        c = case_fields(ct)
        if c['off'] != (0, 0, 0):
            return []
        u = Units(c['text'], c['le'], c['tab'])
        fails = []
        for gi, g in enumerate(it[1:], 1):
            if g[0] != 'lines':
                continue
            for ei, e in enumerate(g[1:], 1):
                s = parse_span(e[0])
                i, j = u.index.get(s[0]), u.index.get(s[1])
                if i is None or j is None:
                    continue
                widen, pieces = expected_lines(u, i, j)
                want_w = fmt_span(*widen)
                if e[1] != want_w:
                    fails.append(((gi, ei), 'widen_to_line(%s) = %s, expected %s (text %s, %s)' % (e[0], e[1], want_w, ' '.join(c['text']), c['le'])))
                got_p = e[2][1:]
                want_p = [fmt_span(*p) for p in pieces][:64]        # the harness stops after 64 pieces (FORMAT-span.md)
                if got_p != want_p:
                    fails.append(((gi, ei), 'split_lines(%s) = %s, expected %s (text %s, %s)' % (e[0], ' '.join(got_p), ' '.join(want_p), ' '.join(c['text']), c['le'])))
                got_l = e[3][1:]
                want_l = [str(len(pieces) - k) for k in range(len(pieces) + 1)] + ['0']
                if len(pieces) >= 64:
                    want_l = want_l[:64]                              # 64 lengths, exhaustion never observed
                if got_l != want_l:
                    fails.append(((gi, ei), 'len() sequence of split_lines(%s) = %s, expected %s' % (e[0], ' '.join(got_l), ' '.join(want_l))))
        return fails

PROP = C18()
