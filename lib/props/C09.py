"""C09 Scoped combinators leave the surrounding parse configuration intact."""
from .. import sexp, parsegen, spangen, lexsim, peg
from .gbase import GProp, pfields, mk_case, run_result

WRAPS = ['none', 'maybe', 'unrec', 'raw', 'reqifF', 'implies', 'filterwith', 'unfiltered', 'stabilize', 'condimplies', 'ctxpush',
         'reqifT', 'condT', 'condF', 'antecedent', 'consequent', 'condimpliesT', 'filterkeep', 'impliesfail']

def wrap(w, q, r):
    if w == 'none': return q
    if w == 'maybe': return ['maybe', q]
    if w == 'unrec': return ['unrec', q]
    if w == 'raw': return ['raw', q]
    if w == 'reqifF': return ['reqif', 'F', q]
    if w == 'implies': return ['implies', q, ['maybe', ['one', 'C']]]
    if w == 'filterwith': return ['filterwith', ['drop', 'Ws', 'Comma'], q]
    if w == 'unfiltered': return ['unfiltered', q]
    if w == 'stabilize': return ['stabilize', q]
    if w == 'condimplies': return ['condimplies', q, 'never', ['one', 'C']]
    if w == 'ctxpush': return ['ctxpush', 77, q]
    if w == 'reqifT': return ['reqif', 'T', q]
    if w == 'condT': return ['cond', 'T', q]
    if w == 'condF': return ['cond', 'F', q]
    if w == 'antecedent': return ['antecedent', q, ['maybe', ['one', 'C']]]
    if w == 'consequent': return ['consequent', q, ['maybe', ['one', 'C']]]
    if w == 'condimpliesT': return ['condimplies', q, r.choice(['always', ['istok', 'A']]), ['maybe', ['one', 'C']]]
    if w == 'filterkeep': return ['filterwith', r.choice([['keep', 'A', 'B', 'C', 'Semi', 'Comma'], ['drop', 'Ws', 'C'], ['keep', 'A', 'B', 'Ws', 'Semi']]), q]
    if w == 'impliesfail': return ['implies', q, ['one', 'C']]          # the right side can fail after the left succeeded
    raise ValueError(w)

def probe_entry(n, pushed):
    e = ['probe', str(n)]
    for t in reversed(pushed):
        e = ['tagged', str(t), e]
    # pushed t1 t2: innermost is t2, applied first: (tagged t1 (tagged t2 (probe n)))
    return e

class C09(GProp):
    id = 'C09'
    files = ['tephra-combinator/src/control.rs', 'tephra-combinator/src/alt.rs', 'tephra/src/context.rs', 'tephra-combinator/src/list.rs']
    rule = ('seeded random sequences q1; probe; q2; probe; ...; P with each qi a succeeding or failing sub-parser optionally wrapped in '
            'maybe / unrecoverable / raw / require_if (both ways) / cond / implies / antecedent / consequent / cond_implies (all predicate forms) / filter_with (drop and keep filters) / unfiltered / stabilize / a user '
            'context push (and a family with a recover state carried into a stabilize that gives up without progress under an alternative or an enclosing recovery), P a recovering parser, 0-3 transforms pushed on the context, on random texts; after every wrapper a '
            'probe error is sent through the enclosing context: it must reach the sink carrying exactly the pushed transforms, the '
            'returned lexer must have the filter it started with, and P\'s value/remaining stream/diagnostics must be those of the '
            'python reference (in which wrappers have no effect on their siblings); non-trivial = >= 2 wrappers of different kinds '
            'and >= 1 pushed transform; distinct by case')

    def cases(self, tier, rng):
        out = []
        r = rng.fork('C09')
        n = 0
        for i in range(3000 if tier == 'quick' else 40000):
            k = 1 + r.below(4)
            parts = []
            for j in range(k):
                q = r.choice([['one', 'A'], ['one', 'B'], ['seq', 'A', 'B'], ['any', 'A', 'B'], ['maybe', ['one', 'A']], ['both', ['one', 'A'], ['one', 'A']],
                              # a wrapped sub-parser that is itself recovering (under maybe / unrec / an antecedent it runs without the sink)
                              ['recoverdef', ['before', 'Semi'], ['one', 'A']], ['recover', ['before', 'Comma'], ['seq', 'A', 'B']],
                              # a wrapper entered on a sub-lexer
                              ['sub', ['one', 'A']]])
                wq = wrap(r.choice(WRAPS), q, r)
                k2 = r.below(5)
                # a failing wrapped parser absorbed by an enclosing optional / alternative: its failure path must not leak either
                if k2 == 0: wq = ['maybe', wq]
                elif k2 == 1: wq = ['either', wq, 'empty']
                elif k2 == 2: wq = wrap(r.choice(WRAPS), wq, r)
                parts.append(wq)
                parts.append(['probe', j + 1])
            if i % 6 == 5:
                # a recover state carried into a stabilize whose retry makes no progress, the failure absorbed by an alternative
                # or an enclosing recovery that shares the context: every return path of stabilize must leave the context alone
                first = [r.choice(['recover', 'recoverdef']), r.choice([['before', 'Semi'], ['beforeany', 'Semi', 'Comma']]), ['one', 'A']]
                stq = ['stabilize', r.choice([['one', 'B'], ['seq', 'A', 'B'], ['one', 'C']])]
                absorb = r.choice([['either', stq, 'empty'], ['either', stq, 'empty'], ['recoverdef', ['before', 'Semi'], stq],
                                   ['either', ['both', stq, ['one', 'A']], ['maybe', ['one', 'Semi']]]])
                parts = [first, ['probe', 1], absorb, ['probe', 2]]
            P = r.choice([['recoverdef', ['before', 'Semi'], ['one', 'A']], ['recover', ['after', 'Semi'], ['seq', 'A', 'B']],
                          ['listdef', ['one', 'A'], 'Comma', ['Semi']], ['stabilize', ['recoverdef', ['before', 'Semi'], ['one', 'B']]]])
            parts.append(P)
            parts.append(['probe', 99])
            g = parts[-1]
            for p in reversed(parts[:-1]):
                g = ['right', p, g]
            pushed = [1 + r.below(5) for _ in range(r.below(4))]
            t = spangen.random_text(r, ['a', 'a', 'b', 'c', 'comma', 'semi', 'sp'], 12)
            n += 1
            out.append(parsegen.parse_case('c%d' % n, t, g, flt=r.choice([['drop', 'Ws'], 'none']), sink=1 if r.chance(4, 5) else 0, pushed=pushed))
        return out

    def nontrivial(self, ct, it):
        c = pfields(ct)
        s = sexp.dump(c['g'])
        return len(c['pushed']) >= 1 and sum(1 for w in ('maybe', 'unrec', 'raw', 'reqif', 'implies', 'filterwith', 'unfiltered', 'stabilize') if w in s) >= 2

    def oracle(self, ct, it):
        c = pfields(ct)
        fails = []
        kind, v, lx = run_result(it[1])
        sink = it[-1][1:]
        # (1) every probe that ran was delivered with exactly the pushed transforms
        for e in sink:
            flat = sexp.dump(e)
            if 'probe-ret' in flat:
                if c['sink']:
                    fails.append((None, 'a probe sent through the enclosing context after a scoped combinator was handed back: the sink is gone (%s)' % flat))
            elif '(probe ' in flat and e[0] in ('tagged', 'probe'):
                inner = e
                while inner[0] == 'tagged':
                    inner = inner[2]
                if inner[0] == 'probe':
                    want = probe_entry(inner[1], c['pushed'])
                    if e != want:
                        fails.append((None, 'probe %s reached the sink as %s, the enclosing context has transforms %s' % (inner[1], flat, ' '.join(c['pushed']))))
        # (2) the lexer keeps its filter
        if kind == 'ok' and (lx['flt'][0] == 'T') != (c['filter'] is not None):
            fails.append(((1,), 'returned lexer has filter=%s, it started with %s' % (lx['flt'][0], c['filter'])))
        # (3) siblings behave as in the reference, where wrappers do not leak
        ref = peg.reference(c['text'], c['le'], c['tab'], c['scanner'], c['filter'], self.strip_probes(c['g']), sink=c['sink'])[0]
        if ref[0] == 'ok' and kind == 'ok':
            if lx['rest'] != ref[2]:
                fails.append(((1,), 'remaining stream [%s], reference [%s]' % (' '.join(lx['rest']), ' '.join(ref[2]))))
            nerr = sum(1 for e in sink if 'probe' not in sexp.dump(e))
            if nerr != ref[4]:
                fails.append(((1,), '%d diagnostics besides the probes, reference expects %d' % (nerr, ref[4])))
        elif ref[0] == 'ok' and kind != 'ok':
            fails.append(((1,), 'failed (%s) although the reference succeeds' % sexp.dump(v)[:100]))
        elif ref[0] == 'fail' and kind == 'ok':
            fails.append(((1,), 'succeeded although the reference fails (%s)' % ref[1]))
        if peg.reference.lost_met and not fails:
            # a filter wrapper entered at a parse start ate tokens its filter hides, for good: a later sibling no longer sees
            # them (the reference follows the code there). The recorded C05 finding, seen through C09's last sentence.
            return [((1,), '[parse-start-filter-change] a filter wrapper entered at a parse start makes the tokens its filter hides unavailable to later siblings')]
        return fails

    def classify(self, ct, f):
        what = str(f.get('detail', {}).get('what', ''))
        if f.get('kind') == 'oracle' and what.startswith('[parse-start-filter-change]'):
            return 'C09-filter-change-at-parse-start'
        return None

    def strip_probes(self, g):
        if isinstance(g, list) and g and g[0] == 'probe':
            return 'empty'
        if isinstance(g, list):
            return [g[0]] + [self.strip_probes(x) if (isinstance(x, list) and x and isinstance(x[0], str) and x[0] in parsegen.GHEADS) else x for x in g[1:]]
        return g

PROP = C09()
