"""C01 Lexing, parsing and error reporting never panic."""
from .. import sexp, parsegen, spangen, lexsim, peg
from .gbase import GProp, pfields, mk_case, run_result
from . import C02 as c02mod, C07 as c07mod, C08 as c08mod, C09 as c09mod, C10 as c10mod, C12 as c12mod, C14 as c14mod
from .C05 import random_ops
from .C04 import FILTERS

FULL = ['a', 'a', 'b', 'c', 'd', 'x', 'sp', 'sp', 'TAB', 'CR', 'LF', 'e2', 'w3', 'z3', 'w4', 'z2', 'bang', 'comma', 'comma', 'semi',
        'hash', 'lp', 'rp', 'lk', 'rk', 'lc', 'rc']

class C01(GProp):
    id = 'C01'
    files = ['tephra-combinator/src/primitive.rs', 'tephra-combinator/src/bracket.rs', 'tephra-combinator/src/misc.rs',
             'tephra-combinator/src/list.rs', 'tephra-combinator/src/control.rs', 'tephra-combinator/src/repeat.rs',
             'tephra/src/lexer.rs', 'tephra-error/src/display.rs', 'tephra-error/src/highlight.rs',
             'tephra-error/src/error/lexer.rs', 'tephra-error/src/error/delimit.rs', 'tephra-span/src/span.rs', 'tephra-span/src/source.rs']
    rule = ('seeded random grammars from every family (primitives, sequencing/choice, repetition, brackets, lists, recovery, '
            'captures, scoped combinators; documented argument preconditions respected) x texts over the FULL alphabet (empty, '
            'leading/trailing filtered tokens, rejected chars, tabs, CR/LF/CRLF, 2-4 byte, wide and zero-width chars; bracket-dense texts for the bracket family) x line '
            'endings x tab width 1..255 x plain / modal / literal / matching scanners x drop and keep filters (also hiding brackets and recovery tokens) x sink on/off, every case with fmt=1: the initial lexer, every returned lexer, the returned '
            'error and every collected error are formatted (Display and Debug of the lexer; into_source_error + Display of errors) under '
            'catch_unwind; plus random lexer histories; any PANIC in the implementation\'s output is a violation (and must coincide '
            'with an explicit Panic of the model); non-trivial = case whose text has a non-ASCII/tab/line-break char and whose '
            'run produced an error or a recovery; distinct by case')
    supervise = 4.0

    def cases(self, tier, rng):
        out = []
        r = rng.fork('C01')
        n = 0
        for i in range(3000 if tier == 'quick' else 40000):
            k = r.below(16)
            kinds = ['A', 'B', 'C', 'Comma', 'U', 'Hash']
            if k == 0: g = parsegen.gen_c06(r, 2 + r.below(10))
            elif k == 1:
                g = c07mod.gen_rep(r, 1 + r.below(3))
                if r.chance(1, 3):
                    g[1] = g[2] = r.below(3)          # "exactly n" items, n = 0 included
            elif k == 2: g = [r.choice(c10mod.VARIANTS), ['LP', 'LK', 'LC'], r.choice([['one', 'A'], c02mod.gen_list(r), 'empty']), ['RP', 'RK', 'RC'], r.choice([[], ['Semi']])]
            elif k == 3: g = c02mod.gen_list(r)
            elif k == 4: g = [r.choice(c12mod.RCOMB), c12mod.gen_rs(r), parsegen.gen_item(r, 2)]
            elif k == 5: g = ['both', ['maybe', ['one', 'A']], [r.choice(['text', 'spanned']), c14mod.gen_wrapped(r)]]
            elif k == 6: g = c08mod.gen_committed(r)
            elif k == 7: g = ['stabilize', ['both', ['recover', ['before', 'Semi'], ['one', 'A']], c02mod.gen_list(r)]]
            elif k == 8: g = ['both', ['recover', ['before', 'Semi'], ['one', 'A']], c02mod.gen_list(r)]
            elif k == 9: g = ['ctxpush', 5, ['both', parsegen.gen_c06(r, 4), 'eot']]
            elif k == 10: g = ['both', ['repeat', 0, 'inf', ['any', 'A', 'B', 'U']], ['either', 'eot', 'userfail']]
            elif k == 11: g = ['unfiltered', ['both', ['maybe', ['pred', ['is', 'Ws']]], parsegen.gen_c06(r, 4)]]
            elif k == 12:
                # long token lists (the error display has separate branches for 1, 2, 3, 4 and more expected tokens), every leaf
                many = r.choice([['A', 'B', 'C', 'Comma'], ['A', 'B', 'C', 'Comma', 'Semi'], ['A', 'B', 'C', 'Comma', 'Semi', 'Hash', 'LP', 'RP', 'LK', 'RK']])
                g = ['both', ['maybe', ['one', 'X']], [r.choice(['any', 'anyidx']), *many]]
                if r.chance(1, 2): g = ['recoverdef', ['before', 'Semi'], g]
            elif k == 13:
                # up_to / unrecoverable / probes (errors handed back or delivered through pushed transforms) / user failures
                body = r.choice([['upto', parsegen.gen_item(r, 2), ['Comma', 'Semi']], ['unrec', c08mod.gen_committed(r)],
                                 ['right', ['probe', 1], ['either', 'userfail', ['one', 'A']]], ['ctxpush', 3, ['recoverdef', ['before', 'Semi'], ['seq', 'A', 'B']]]])
                g = ['both', ['maybe', ['one', 'B']], body]
            elif k == 14:
                # brackets: two kinds, permuted kinds, nested bracket parsers, inner parsers reading past the close, abort sets with bracket tokens
                ks = r.choice([(['LP', 'LK'], ['RP', 'RK']), (['LK', 'LP'], ['RK', 'RP']), (['LC', 'LP'], ['RC', 'RP']), (['LP', 'LK', 'LC'], ['RP', 'RK', 'RC'])])
                inner = r.choice([['repeat', 0, 'inf', ['any', 'A', 'B', 'Comma', 'RP', 'RK']], [r.choice(c10mod.VARIANTS), ks[0], ['maybe', ['one', 'A']], ks[1], []],
                                  ['spanned', ['repeat', 0, 'inf', ['one', 'A']]], c02mod.gen_list(r)])
                g = [r.choice(c10mod.VARIANTS), ks[0], inner, ks[1], r.choice([[], ['Semi'], ['RP'], ['LK', 'Comma']])]
            elif k == 15:
                # captures in varied positions, recovery on a token the filter may hide
                g = r.choice([['repeat', 0, 'inf', ['both', ['one', 'Comma'], [r.choice(['text', 'spanned']), c14mod.gen_wrapped(r)]]],
                              ['recover', ['before', 'Hash'], ['spanned', ['seq', 'A', 'B']]],
                              ['listdef', ['text', ['one', 'A']], 'Comma', ['Semi']]])
            else: g = ['unfiltered', ['both', ['maybe', ['pred', ['is', 'Ws']]], parsegen.gen_c06(r, 4)]]
            t = spangen.random_text(r, FULL, 16 if tier == 'quick' else 30)
            if k == 1 and r.chance(1, 2):
                # item-dense texts for the repetitions: the item really matches where the loop stands (also with bounds 0..0)
                t = spangen.random_text(r, ['a', 'a', 'a', 'b', 'c', 'comma', 'comma', 'sp', 'semi'], 10)
            elif k in (2, 14) and r.chance(1, 2):
                # deep well-nested bracket texts with same-kind runs and one perturbation (runs partly closed, then a mismatch)
                t = c10mod.gen_nested_text(r)[:24]
            elif k in (2, 14) and r.chance(2, 3):
                # bracket-dense texts: runs of same-kind open brackets partly closed, then mismatched / missing / extra closes
                t = spangen.random_text(r, ['lp', 'lk', 'lk', 'lk', 'lc', 'rp', 'rk', 'rk', 'rc', 'a', 'sp', 'semi', 'w3'], 12 if tier == 'quick' else 20)
            n += 1
            out.append(parsegen.parse_case('c%d' % n, t, g, le=r.choice(['lf', 'cr', 'crlf']), tab=r.choice([1 + r.below(16), 1 + r.below(16), 17 + r.below(239)]),
                                           scanner=r.choice(['plain', 'plain', 'modal', 'literal', 'matching']),
                                           flt=r.choice([['drop', 'Ws'], ['drop', 'Ws'], 'none', ['drop', 'Ws', 'U'], ['keep', 'A', 'B', 'C', 'Comma', 'Semi', 'LP', 'RP', 'LK', 'RK'],
                                                         ['drop', 'Ws', 'Hash', 'Semi'], ['drop', 'Ws', 'LP', 'RP']]),
                                           sink=r.below(2), pushed=[1] if r.chance(1, 4) else [], fmt=1, runs=1 + (r.below(3) if r.chance(1, 5) else 0)))
        # corner bounds of every repetition combinator on texts where the item matches at once: 0..0, n..n, 0..1
        for i in range(60 if tier == 'quick' else 600):
            kind = r.choice(c07mod.REPS)
            lo = r.below(3); hi = r.choice([lo, lo, lo + 1, 0 if lo == 0 else lo])
            item = r.choice([['one', 'A'], ['any', 'A', 'B'], ['seq', 'A', 'A']])
            if kind in ('repeat', 'repeatcount'): g = [kind, lo, hi, item]
            elif kind in ('repeatuntil', 'repeatcountuntil'): g = [kind, lo, hi, ['one', 'C'], item]
            elif kind in ('intersperse', 'interspersecount'): g = [kind, lo, hi, item, ['one', 'Comma']]
            elif kind in ('intersperseuntil', 'interspersecountuntil'): g = [kind, lo, hi, ['one', 'C'], item, ['one', 'Comma']]
            else: g = [kind, lo, hi, item, 'Comma']
            t = r.choice([['a'], ['sp', 'a'], ['a', 'comma', 'a'], ['a', 'a', 'comma', 'a', 'a'], ['b', 'a']]) + spangen.random_text(r, ['a', 'comma', 'sp', 'c'], 4)
            n += 1
            out.append(parsegen.parse_case('c%d' % n, t, ['both', g, ['maybe', ['one', 'A']]] if r.chance(1, 2) else g, sink=r.below(2), fmt=1))
        for i in range(600 if tier == 'quick' else 8000):
            t = spangen.random_text(r, FULL, 16)
            build = [['metrics', r.choice(['lf', 'cr', 'crlf']), 1 + r.below(16)], ['filter', r.choice(FILTERS)]]
            if r.chance(1, 2): build.reverse()
            n += 1
            out.append(parsegen.lex_case('c%d' % n, r.choice(['plain', 'counting', 'modal']), t, build, random_ops(r, 3 + r.below(8)) + ['drain']))
        return out

    def nontrivial(self, ct, it):
        s = sexp.dump(ct)
        return any(w in s for w in (' TAB', ' CR', ' LF', ' e2', ' w3', ' z3', ' w4', ' z2')) and ('(err' in sexp.dump(it) or '(sink (' in sexp.dump(it))

    def oracle(self, ct, it):
        s = sexp.dump(it)
        if 'PANIC' in s:
            where = 'formatting (Display of a lexer or of a source error)' if '(fmt PANIC)' in s and s.count('PANIC') == 1 else 'the parse / lexer operation'
            return [(None, 'panic in %s: %s' % (where, s[:300]))]
        return []

    def shrink(self, ct):
        if ct[0] == 'parse-case':
            yield from GProp.shrink(self, ct)

PROP = C01()
