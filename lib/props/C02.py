"""C02 Every parse terminates, including under error recovery."""
from .. import sexp, parsegen, spangen, lexsim, peg
from .gbase import GProp, pfields, mk_case, run_result
from . import C07 as c07mod, C12 as c12mod

def gen_list(r, kinds=('A', 'B')):
    item = parsegen.gen_item(r, 1 + r.below(3), kinds=list(kinds))
    k = r.choice(['list', 'listb', 'listdef', 'listbdef'])
    ab = r.choice([['Semi'], ['Semi'], ['RK'], [], ['Semi', 'RK']])
    if k in ('list', 'listdef'):
        return [k, item, 'Comma', ab]
    lo = r.below(3)
    hi = r.choice(['inf', lo, lo + 1, 3])
    if hi != 'inf' and hi < lo: hi = lo
    return [k, lo, hi, item, 'Comma', ab]

class C02(GProp):
    id = 'C02'
    files = ['tephra-combinator/src/control.rs', 'tephra-combinator/src/list.rs', 'tephra-combinator/src/repeat.rs',
             'tephra-combinator/src/bracket.rs', 'tephra/src/lexer.rs', 'tephra-error/src/error/lexer.rs']
    rule = ('seeded random grammars whose repetition bodies are non-nullable: delimited lists (all four entry points, bounds, abort '
            'sets) with malformed items/last items/missing separators, stabilize around recovering and non-recovering parsers, '
            'every recovery strategy incl. recovery point = current token and none installed, a recover state carried into stabilize from an earlier recovery, repetition and bracket families (bracket scans with abort tokens before, inside and after the brackets), '
            'on random texts, sink on/off; each case runs in a supervised process with a per-case wall-clock limit and a 4 GiB '
            'address-space cap; a case that does not return is the failing observation and must coincide with fuel exhaustion of '
            'the model; non-trivial = grammar containing list/stabilize/recover on a text where some item fails; distinct by case')
    assumptions = ['repetition bodies consume at least one token whenever they succeed (generator-enforced, syntactic)']
    supervise = 4.0
    run_timeout = {'quick': 90, 'thorough': 600}

    def cases(self, tier, rng):
        out = []
        r = rng.fork('C02')
        n = 0
        alpha = ['a', 'a', 'b', 'c', 'comma', 'comma', 'semi', 'sp', 'bang', 'lk', 'rk']
        for i in range(2500 if tier == 'quick' else 30000):
            k = r.below(10)
            dense = False
            if k < 4:
                g = gen_list(r)
                if r.chance(1, 3):
                    g = g[:-1] + [sorted(set(g[-1] + ['RK']))]      # inside brackets the close token aborts the list
                    g = ['bracketdef', ['LK', 'LP'], g, ['RK', 'RP'], []]
                elif r.chance(1, 3): g = ['both', g, ['maybe', ['one', 'Semi']]]
            elif k == 4:
                g = ['stabilize', r.choice([['one', 'A'], ['recoverdef', c12mod.gen_rs(r), ['seq', 'A', 'B']], parsegen.gen_item(r, 3)])]
            elif k == 5:
                g = ['both', ['recover', c12mod.gen_rs(r), ['one', 'A']], ['stabilize', ['recoverdef', c12mod.gen_rs(r), ['one', 'B']]]]
            elif k == 6 and r.chance(1, 2):
                g = ['repeat', 0, 'inf', ['both', [r.choice(c12mod.RCOMB), ['before', 'Comma'], ['one', 'A']], ['one', 'Comma']]]
            elif k == 6:
                # a repeated recover-AFTER parser (it always steps over its recovery token, so it consumes whenever it succeeds):
                # adjacent recovery tokens, the recovery token last, none at all
                rs = r.choice([['after', 'Semi'], ['after', 'Comma'], ['afterany', 'Semi', 'Comma']])
                g = ['repeat', 0, 'inf', [r.choice(c12mod.RCOMB), rs, r.choice([['one', 'A'], ['seq', 'A', 'A']])]]
                if r.chance(1, 3): g = ['both', g, ['maybe', ['any', 'A', 'B', 'Semi', 'Comma']]]
                dense = True
            elif k == 7:
                g = c07mod.gen_rep(r, 2)
            elif k == 8:
                g = ['stabilize', ['both', ['recover', ['before', 'Semi'], ['one', 'A']], gen_list(r)]]
            else:
                g = ['both', ['recover', ['before', 'Semi'], ['one', 'A']], gen_list(r)]
            t = spangen.random_text(r, alpha, 12 if tier == 'quick' else 24)
            if dense:
                t = spangen.random_text(r, ['a', 'b', 'semi', 'semi', 'comma', 'comma', 'sp'], 10)
            if i % 9 == 8:
                # the bracket scan with a non-trivial abort set: abort tokens before, inside and after the brackets, nested and
                # unclosed brackets (the scan must step over every token exactly once)
                inner = r.choice([['repeat', 0, 'inf', ['any', 'A', 'B', 'Comma', 'Semi']], ['one', 'A'], gen_list(r, kinds=('A', 'B'))])
                g = [r.choice(['bracket', 'bracketdef', 'bracketidx', 'bracketdefidx']), ['LK', 'LP'], inner, ['RK', 'RP'],
                     r.choice([['Semi'], ['Semi', 'Comma'], ['C']])]
                t = spangen.random_text(r, ['a', 'b', 'c', 'comma', 'semi', 'semi', 'sp', 'lk', 'lk', 'rk', 'rk', 'lp', 'rp'], 10)
            if i % 9 == 7:
                # a recover state carried INTO stabilize from an earlier recovery of the same parse: the stabilized parser fails,
                # the recovery point is ahead of the cursor, and the retry fails again at the recovery point
                rs = r.choice([['before', 'Semi'], ['before', 'Semi'], ['beforeany', 'Semi', 'Comma'], ['after', 'Semi']])
                first = [r.choice(['recover', 'recoverdef']), rs, ['one', 'A']]
                if r.chance(2, 3): first = ['left', first, ['one', 'Semi']]
                st = ['stabilize', r.choice([['one', 'B'], ['seq', 'A', 'B'], ['both', ['one', 'B'], ['one', 'B']]])]
                tail = r.choice([st, st, ['both', st, ['maybe', ['one', 'Semi']]], gen_list(r)])
                g = ['both', first, tail]
                t = spangen.random_text(r, ['a', 'a', 'b', 'semi', 'semi', 'sp', 'comma'], 9)
            n += 1
            out.append(parsegen.parse_case('c%d' % n, t, g, sink=r.below(2)))
        return out

    def nontrivial(self, ct, it):
        s = sexp.dump(pfields(ct)['g'])
        return any(w in s for w in ('list', 'stabilize', 'recover'))

    def oracle(self, ct, it):
        fails = []
        for x in it[1:]:
            if isinstance(x, list) and x and x[0] == 'run' and x[1] == 'DIVERGED':
                fails.append((None, 'the parse does not terminate'))
        return fails

PROP = C02()
