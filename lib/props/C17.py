"""C17 Span operations behave as interval set algebra."""
from .. import sexp, spangen
from .spanbase import SpanProp, case_fields, parse_span, parse_pos

class C17(SpanProp):
    id = 'C17'
    files = ['tephra-span/src/span.rs', 'tephra-span/src/position.rs']
    rule = ('every text up to the tier bound over {a,TAB,LF,e2,w3} (CR instead of e2 under cr / crlf), plus every short text over {a, zero-width mark, CR, LF} under LF (equal page, different byte) and seeded texts whose positions are handed over in descending / shuffled order; per text all spans over its canonical positions '
            'and all ordered pairs of spans through enclose/union/intersect/minus/intersects/adjacent and contains '
            'for every position; non-trivial = text with >= 2 canonical positions; distinct by (text, metrics)')
    exhaustive = {'quick': True, 'thorough': True}
    vary_order = False
    assumptions = ['span endpoints are canonical positions of one text (the property\'s quantifier)',
                   'model/spec tie is by this run\'s correspondence only']

    def cases(self, tier, rng):
        out = []
        n = 0
        if tier == 'quick':
            confs = [('lf', 4, 3)]
        else:
            confs = [('lf', 4, 4), ('cr', 3, 4), ('crlf', 8, 4)]
        for le, tab, maxlen in confs:
            alpha = ['a', 'TAB', 'LF', 'e2', 'w3'] if le == 'lf' else ['a', 'TAB', 'LF', 'CR', 'w3']
            for t in spangen.all_texts(alpha, maxlen):
                n += 1
                out.append(spangen.span_case('c%d' % n, le, tab, t, ['alg']))
        # zero-width characters (a combining mark, a CR that is no line break under LF): two positions with the same line and
        # column but different bytes - byte order and page order differ, so comparing pages instead of bytes shows
        for t in spangen.all_texts(['a', 'z2', 'CR', 'LF'], 3 if tier == 'quick' else 4):
            if 'z2' in t or 'CR' in t:
                n += 1
                out.append(spangen.span_case('c%d' % n, 'lf', 4, t, ['alg']))
        # positions handed over in DESCENDING order: the harness builds its spans with Span::enclosing(P[i], P[j]), i <= j in the
        # order given, so `enclosing` (and every operation built on it) must order its two arguments by byte itself
        r = rng.fork('C17')
        for i in range(40 if tier == 'quick' else 300):
            t = spangen.random_text(r, ['a', 'TAB', 'LF', 'e2', 'w3', 'z2', 'CR'], 4)
            le = r.choice(['lf', 'cr', 'crlf'])
            bases = spangen.canon_positions(t, le, 4)
            bases = list(reversed(bases)) if i % 2 == 0 else sorted(bases, key=lambda p: r.below(1000))
            n += 1
            out.append(spangen.span_case('c%d' % n, le, 4, t, ['alg'], bases=bases))
        return out

    def nontrivial(self, ct, it):
        return len(case_fields(ct)['bases']) >= 2

    def oracle(self, ct, it):
        c = case_fields(ct)
        bypos = {p[0]: p for p in c['bases']}
        fails = []
        for gi, g in enumerate(it[1:], 1):
            if g[0] != 'alg':
                continue
            for ei, e in enumerate(g[1:], 1):
                if e[0] == 'cont':
                    a = parse_span(e[1])
                    for p, v in zip(c['bases'], e[2:]):
                        exp = a[0][0] <= p[0] <= a[1][0]
                        if v != ('T' if exp else 'F'):
                            fails.append(((gi, ei), 'contains(%s, %s) = %s' % (e[1], p, v)))
                    continue
                A, B, enc, uni, inter, minus, ints, adj = e
                if 'PANIC' in sexp.dump(e):
                    fails.append(((gi, ei), 'panic in span algebra on %s %s' % (A, B))); continue
                a, b = parse_span(A), parse_span(B)
                a0, a1, b0, b1 = a[0][0], a[1][0], b[0][0], b[1][0]
                def wf(s):
                    return s[0][0] <= s[1][0] and bypos.get(s[0][0]) == s[0] and bypos.get(s[1][0]) == s[1]
                en = parse_span(enc)
                if not (wf(en) and en[0][0] == min(a0, b0) and en[1][0] == max(a1, b1)):
                    fails.append(((gi, ei), 'enclose %s %s = %s' % (A, B, enc)))
                touch = max(a0, b0) <= min(a1, b1)
                if (ints == 'T') != touch:
                    fails.append(((gi, ei), 'intersects %s %s = %s' % (A, B, ints)))
                if (adj == 'T') != (a0 == b1 or a1 == b0):
                    fails.append(((gi, ei), 'adjacent %s %s = %s' % (A, B, adj)))
                if touch:
                    if inter == '-' or not wf(parse_span(inter)) or \
                       (parse_span(inter)[0][0], parse_span(inter)[1][0]) != (max(a0, b0), min(a1, b1)):
                        fails.append(((gi, ei), 'intersect %s %s = %s' % (A, B, inter)))
                elif inter != '-':
                    fails.append(((gi, ei), 'intersect of disjoint %s %s = %s' % (A, B, inter)))
                up = [parse_span(x) for x in uni[1:]]
                if touch:
                    if not (len(up) == 1 and up[0] == en):
                        fails.append(((gi, ei), 'union %s %s = %s' % (A, B, sexp.dump(uni))))
                else:
                    if not (len(up) == 2 and up[0] == a and up[1] == b):
                        fails.append(((gi, ei), 'union %s %s = %s' % (A, B, sexp.dump(uni))))
                pieces = [parse_span(x) for x in minus[1:]]
                ok = True
                for p in pieces:
                    p0, p1 = p[0][0], p[1][0]
                    if not wf(p) or p0 < a0 or p1 > a1:
                        ok = False
                    if max(p0, b0) < min(p1, b1):
                        ok = False                      # overlaps the interior of B
                    if p0 == p1 and b0 < p0 < b1:
                        ok = False
                for x in range(a0, a1 + 1):
                    if (x < b0 or x > b1) and not any(p[0][0] <= x <= p[1][0] for p in pieces):
                        ok = False
                for x in range(a0, a1):
                    if (x + 1 <= b0 or x >= b1) and not any(p[0][0] <= x and x + 1 <= p[1][0] for p in pieces):
                        ok = False
                if not ok:
                    fails.append(((gi, ei), 'minus %s %s = %s' % (A, B, sexp.dump(minus))))
        return fails

PROP = C17()
