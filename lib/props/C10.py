"""C10 Bracket combinators match properly nested brackets of every kind."""
from .. import sexp, parsegen, spangen, lexsim, peg
from .gbase import GProp, pfields, mk_case, run_result

PAIRS = [('LP', 'RP'), ('LK', 'RK'), ('LC', 'RC')]
SYMS = {'LP': 'lp', 'RP': 'rp', 'LK': 'lk', 'RK': 'rk', 'LC': 'lc', 'RC': 'rc'}
VARIANTS = ['bracket', 'bracketdef', 'bracketidx', 'bracketdefidx']

def classify_err(e):
    if isinstance(e, list) and e and e[0] == 'tagged':
        return classify_err(e[2])
    if isinstance(e, list) and e and e[0] == 'bracket':
        return e[1]
    return None

def gen_nested_text(r):
    """a deep, well-nested bracket text (same-kind runs, tokens around it) with at most one local perturbation"""
    def nest(d):
        if d <= 0 or r.chance(1, 5):
            return [r.choice(['a', 'a', 'comma', 'sp'])] * r.below(3)
        k = r.below(3)
        run = 1 + (r.below(4) if r.chance(1, 3) else 0)       # k k k ... of the same kind
        body = nest(d - 1)
        for _ in range(r.below(2)):
            body = body + nest(d - 1)
        return [SYMS[PAIRS[k][0]]] * run + body + [SYMS[PAIRS[k][1]]] * run
    t = r.choice([[], ['a'], ['sp'], ['b', 'sp']]) + nest(3 + r.below(5)) + r.choice([[], ['a'], ['sp', 'a'], ['comma']]) + (nest(2) if r.chance(1, 3) else [])
    if r.chance(1, 3) and t:
        j = r.below(len(t))
        c = r.below(3)
        if c == 0: t = t[:j] + t[j + 1:]                                         # drop one token (often a bracket)
        elif c == 1: t = t[:j] + [SYMS[PAIRS[r.below(3)][r.below(2)]]] + t[j:]    # insert a stray bracket
        else: t = t[:j] + [SYMS[PAIRS[r.below(3)][1]]] + t[j + 1:]                # replace by a close bracket
    return t[:40]

class C10(GProp):
    id = 'C10'
    supervise = 4.0
    files = ['tephra-combinator/src/bracket.rs']
    rule = ('all token strings up to the tier bound over {three bracket kinds, plain token, separator, whitespace (filtered), '
            'rejected char} x every non-empty ordered subset of kinds passed to the combinator x abort sets (incl. sets that contain bracket tokens of passed and of other kinds) x the four bracket '
            'combinators x sink on/off, plus seeded random deeper nestings, deep well-nested texts (depth up to 8, same-kind runs up to 5, at most one dropped / stray / replaced bracket, tokens before the first open bracket and behind the partner), and repetitions that invoke the same bracket parser object again after it failed; inner parsers that read less than, exactly, or more '
            'than the bracket contents; classification (matched/none/unopened/unclosed/mismatch), pair index, value and the '
            'token following the partner are compared with a python reference stack matcher; non-trivial = >= 2 bracket tokens '
            'of >= 2 kinds; distinct by case')
    assumptions = ['disjoint open/close sets, at least two kinds passed (documented preconditions)']

    def cases(self, tier, rng):
        out = []
        r = rng.fork('C10')
        n = 0
        inners = [['one', 'A'], ['maybe', ['one', 'A']], ['repeat', 0, 'inf', ['any', 'A', 'Comma']], 'empty',
                  ['both', ['one', 'A'], ['one', 'A']], ['repeat', 0, 'inf', ['any', 'A', 'RP', 'RK', 'LP']]]
        def add(t, kinds, ab, variant, inner, sink):
            nonlocal n
            n += 1
            g = [variant, [PAIRS[k][0] for k in kinds], inner, [PAIRS[k][1] for k in kinds], ab]
            if r.chance(1, 3):
                g = ['both', ['maybe', ['one', 'B']], ['both', g, ['maybe', ['one', 'A']]]]
            out.append(parsegen.parse_case('c%d' % n, t, g, sink=sink))
        alpha = ['lp', 'rp', 'lk', 'rk', 'a', 'comma', 'sp'] if tier == 'quick' else ['lp', 'rp', 'lk', 'rk', 'lc', 'rc', 'a', 'comma', 'sp', 'bang']
        maxlen = 4 if tier == 'quick' else 5
        for t in spangen.all_texts(alpha, maxlen):
            if sum(1 for x in t if x in ('lp', 'rp', 'lk', 'rk', 'lc', 'rc')) < 1:
                continue
            kinds = r.choice([[0, 1], [1, 0], [0, 1, 2], [2, 0], [0, 1]])
            # abort predicates that also accept bracket tokens (of kinds passed or not passed): a close or open bracket of
            # a passed kind is a bracket first, an abort token only otherwise
            add(t, kinds, r.choice([[], ['Comma'], ['A'], ['RP'], ['LP', 'Comma'], ['RK', 'A'], ['LK']]), r.choice(VARIANTS), r.choice(inners), r.below(2))
        for i in range(1500 if tier == 'quick' else 20000):
            # random nestings: mostly balanced with noise
            t = []
            depth = []
            for _ in range(2 + r.below(14)):
                c = r.below(10)
                if c < 3:
                    k = r.below(3); t.append(SYMS[PAIRS[k][0]]); depth.append(k)
                elif c < 6 and depth:
                    k = depth.pop() if r.chance(4, 5) else r.below(3); t.append(SYMS[PAIRS[k][1]])
                elif c == 6:
                    t.append(SYMS[PAIRS[r.below(3)][1]])
                else:
                    t.append(r.choice(['a', 'a', 'comma', 'sp', 'b', 'bang']))
            kinds = r.choice([[0, 1], [1, 0], [0, 1, 2], [2, 1], [0, 2], [2, 1, 0]])
            if i % 4 == 3:
                # the SAME bracket parser object invoked again and again, also after it failed (unclosed, mismatch, unopened): a
                # repetition whose item is "the bracket parser, or else skip one token"; each invocation must match as a fresh one
                n += 1
                br = [r.choice(VARIANTS), [PAIRS[k][0] for k in kinds], r.choice(inners[:5]), [PAIRS[k][1] for k in kinds], r.choice([[], [], ['Comma']])]
                skip = ['any', 'A', 'B', 'Comma', 'LP', 'RP', 'LK', 'RK', 'LC', 'RC']
                g = ['repeat', 0, 'inf', ['either', ['map', 1, br], ['map', 2, skip]]]
                out.append(parsegen.parse_case('c%d' % n, [x for x in t if x != 'bang'], g, sink=0))
                continue
            add(t, kinds, r.choice([[], ['Comma'], ['A'], ['B', 'Comma'], ['RP'], ['RK', 'Comma'], ['LP'], ['LC', 'RC'], ['LK', 'A']]), r.choice(VARIANTS), r.choice(inners), r.below(2))
        # deep, well-nested texts (a matched outermost pair nearly always exists) with at most one local perturbation, long
        # same-kind runs, tokens in front of the first open bracket and behind the partner: the partner is found by balanced
        # nesting across ALL kinds, the run-length bookkeeping of same-kind runs is exercised, and the inner parser stops early
        for i in range(500 if tier == 'quick' else 8000):
            t = gen_nested_text(r)
            kinds = r.choice([[0, 1, 2], [0, 1, 2], [2, 1, 0], [0, 1], [1, 2], [0, 2]])
            add(t, kinds, r.choice([[], [], ['Comma'], ['B']]), r.choice(VARIANTS),
                r.choice(inners + [['repeat', 0, 'inf', ['any', 'A', 'Comma', 'LP', 'LK', 'LC', 'RP', 'RK', 'RC']], ['repeat', 0, 2, ['any', 'A', 'LP', 'LK', 'LC']]]), r.below(2))
        return out

    def nontrivial(self, ct, it):
        t = pfields(ct)['text']
        ks = set(x for x in t if x in ('lp', 'rp', 'lk', 'rk', 'lc', 'rc'))
        return len(ks) >= 2 and sum(1 for x in t if x in ks) >= 2

    def oracle(self, ct, it):
        c = pfields(ct)
        ref = peg.reference(c['text'], c['le'], c['tab'], c['scanner'], c['filter'], c['g'], sink=c['sink'])[0]
        if ref[0] == 'notcovered':
            return []
        kind, v, lx = run_result(it[1])
        if kind in ('panic', 'diverged'):
            return [((1,), 'bracket parser %s on %s: %s; reference matcher: %s' % (sexp.dump(c['g'])[:120], ' '.join(c['text']), kind, ref[:2]))]
        if ref[0] == 'fail':
            if kind != 'err':
                return [((1,), 'accepted %s although the reference matcher gives %s' % (sexp.dump(v), ref[1]))]
            cls = classify_err(v)
            if ref[1].startswith('bracket:') and cls is not None and cls != ref[1].split(':')[1]:
                return [((1,), 'failure classified %s, reference stack matcher classifies %s' % (cls, ref[1]))]
            if ref[1].startswith('bracket:') and cls is None:
                return [((1,), 'failure %s, reference stack matcher classifies %s' % (sexp.dump(v)[:100], ref[1]))]
            if not ref[1].startswith('bracket:') and cls is not None and c['g'][0].startswith('bracket'):
                # the reference found the pair and it is the INNER parser that fails (no sink): a bracket-matching error is wrong
                return [((1,), 'failure classified %s although the reference matcher finds a pair (it is the inner parser that fails: %s)' % (cls, ref[1]))]
            return []
        if kind != 'ok':
            return [((1,), 'rejected (%s) although the reference matcher finds a pair: value %s' % (sexp.dump(v)[:120], sexp.dump(ref[1])))]
        fails = []
        if v != ref[1]:
            fails.append(((1,), 'value %s, reference %s' % (sexp.dump(v), sexp.dump(ref[1]))))
        if lx['rest'] != ref[2]:
            fails.append(((1,), 'token stream after the bracket %s, reference (after the partner) %s' % (' '.join(lx['rest']), ' '.join(ref[2]))))
        nsink = len(it[-1]) - 1 if it[-1][0] == 'sink' else None
        if nsink is not None and nsink != ref[4]:
            fails.append(((1,), '%d errors in the sink, reference expects %d' % (nsink, ref[4])))
        return fails

PROP = C10()
