"""Shared pieces of the grammar-level properties (parse-cases)."""
from .. import sexp, parsegen, lexsim, peg
from .parsebase import ParseProp

def pfields(ct):
    f = ct[2:]
    g = lambda k: sexp.field(f, k)
    flt = g('filter')[0]
    return {'le': g('le')[0], 'tab': int(g('tab')[0]), 'scanner': g('scanner')[0], 'filter': None if flt == 'none' else flt,
            'sink': g('sink')[0] == '1', 'pushed': g('pushed'), 'fmt': g('fmt')[0], 'runs': int(g('runs')[0]),
            'text': g('text'), 'g': g('g')[0]}

def mk_case(cid, c, text=None, g=None):
    return parsegen.parse_case(cid, c['text'] if text is None else text, c['g'] if g is None else g, le=c['le'], tab=c['tab'],
                               scanner=c['scanner'], flt=('none' if c['filter'] is None else c['filter']),
                               sink=1 if c['sink'] else 0, pushed=[int(x) for x in c['pushed']], fmt=int(c['fmt']), runs=c['runs'])

def run_result(run):
    """(run (ok V) LX) | (run (err E)) | (run PANIC) | (run DIVERGED) -> (kind, payload, lx-dict)"""
    r = run[1]
    if r == 'PANIC' or r == 'DIVERGED':
        return r.lower(), None, None
    if r[0] == 'err':
        return 'err', r[1], None
    lx = {x[0]: x[1:] for x in run[2][1:]}
    return 'ok', r[1], lx

class GProp(ParseProp):
    def shrink(self, ct):
        c = pfields(ct)
        for i in range(len(c['text'])):
            yield mk_case(ct[1], c, text=c['text'][:i] + c['text'][i + 1:])
        n = 0
        for g2 in parsegen.shrink_grammar(c['g']):
            n += 1
            if n > 60:
                break
            yield mk_case(ct[1], c, g=g2)

    def tally(self, ct, it, dist):
        if ct[0] != 'parse-case':
            dist['kind=' + ct[0]] = dist.get('kind=' + ct[0], 0) + 1
            return
        c = pfields(ct)
        head = c['g'][0] if isinstance(c['g'], list) else c['g']
        dist['root=' + head] = dist.get('root=' + head, 0) + 1
        kind = run_result(it[1])[0] if len(it) > 1 and isinstance(it[1], list) and it[1][0] == 'run' else '?'
        dist['result=' + kind] = dist.get('result=' + kind, 0) + 1
