"""Shared pieces of the grammar-level properties (parse-cases)."""
from .. import sexp, parsegen, lexsim, peg
from .parsebase import ParseProp

def pfields(ct):
    f = ct[2:]
    g = lambda k: sexp.field(f, k)
    flt = g('filter')[0]
    return {'le': g('le')[0], 'tab': int(g('tab')[0]), 'scanner': g('scanner')[0], 'filter': None if flt == 'none' else flt,
            'sink': g('sink')[0] == '1', 'pushed': g('pushed'), 'fmt': g('fmt')[0], 'runs': int(g('runs')[0]),
            'text': g('text'), 'g': g('g')[0], 'order': 'fm' if any(isinstance(x, list) and x[:2] == ['order', 'fm'] for x in f) else 'mf'}

def mk_case(cid, c, text=None, g=None):
    return parsegen.parse_case(cid, c['text'] if text is None else text, c['g'] if g is None else g, le=c['le'], tab=c['tab'],
                               scanner=c['scanner'], flt=('none' if c['filter'] is None else c['filter']),
                               sink=1 if c['sink'] else 0, pushed=[int(x) for x in c['pushed']], fmt=int(c['fmt']), runs=c['runs'], order=c.get('order', 'mf'))

def run_result(run):
    """(run (ok V) LX) | (run (err E)) | (run PANIC) | (run DIVERGED) -> (kind, payload, lx-dict)"""
    r = run[1]
    if r == 'PANIC' or r == 'DIVERGED':
        return r.lower(), None, None
    if r[0] == 'err':
        return 'err', r[1], None
    lx = {x[0]: x[1:] for x in run[2][1:]}
    return 'ok', r[1], lx


# ---- the syntactic classes of the theorems (mirrors RunCore.in_core, RunPegTotal.nn / wfr): evidence only
_LEAF = ('empty', 'eot', 'userfail')
def _parts(g):
    if not isinstance(g, list): return g, []
    return g[0], g[1:]

def g_nn(g):
    h, a = _parts(g)
    if h in ('one', 'pred', 'any', 'anyidx', 'userfail'): return True
    if h == 'seq': return len(a) > 0
    if h in ('both', 'left', 'right'): return g_nn(a[0]) or g_nn(a[1])
    if h == 'center': return any(g_nn(x) for x in a)
    if h == 'either': return g_nn(a[0]) and g_nn(a[1])
    if h in ('map', 'ctxpush'): return g_nn(a[1])
    if h in ('discard', 'sub', 'raw', 'unrec'): return g_nn(a[0])
    if h in ('reqif', 'cond'): return a[0] == 'T' and g_nn(a[1])
    if h in ('repeat', 'repeatcount', 'interspersedef', 'intersperse', 'interspersecount'):
        return int(a[0]) >= 1 and g_nn(a[2])
    return False

def _hi_ok(lo, hi):
    return hi == 'inf' or int(lo) <= int(hi)

def g_wfr(g):
    h, a = _parts(g)
    if h in ('empty', 'one', 'pred', 'seq', 'seqcount', 'eot', 'userfail'): return True
    if h in ('any', 'anyidx'): return len(a) > 0
    if h in ('both', 'left', 'right', 'either', 'implies', 'antecedent', 'consequent'): return g_wfr(a[0]) and g_wfr(a[1])
    if h == 'condimplies': return g_wfr(a[0]) and g_wfr(a[2])
    if h == 'center': return all(g_wfr(x) for x in a)
    if h in ('map', 'ctxpush'): return g_wfr(a[1])
    if h in ('discard', 'sub', 'raw', 'unrec', 'maybe'): return g_wfr(a[0])
    if h in ('reqif', 'cond'): return g_wfr(a[1])
    if h in ('repeat', 'repeatcount', 'interspersedef'):
        return _hi_ok(a[0], a[1]) and g_wfr(a[2]) and g_nn(a[2])
    if h in ('repeatuntil', 'repeatcountuntil'):
        return _hi_ok(a[0], a[1]) and g_wfr(a[2]) and g_wfr(a[3]) and g_nn(a[3])
    if h in ('intersperse', 'interspersecount'):
        return _hi_ok(a[0], a[1]) and g_wfr(a[2]) and g_wfr(a[3]) and g_nn(a[2])
    if h in ('intersperseuntil', 'interspersecountuntil'):
        return _hi_ok(a[0], a[1]) and g_wfr(a[2]) and g_wfr(a[3]) and g_wfr(a[4]) and g_nn(a[3])
    return False

def theorem_class(g):
    try:
        return 'exact-spec(wfr)' if g_wfr(g) else 'outside-wfr'
    except Exception:
        return 'outside-wfr'

class GProp(ParseProp):
    def shrink(self, ct):
        c = pfields(ct)
        for i in range(len(c['text'])):
            yield mk_case(ct[1], c, text=c['text'][:i] + c['text'][i + 1:])
        n = 0
        for g2 in parsegen.shrink_grammar(c['g']):
            n += 1
            if n > 60:
                break
            yield mk_case(ct[1], c, g=g2)

    def tally(self, ct, it, dist):
        if ct[0] != 'parse-case':
            dist['kind=' + ct[0]] = dist.get('kind=' + ct[0], 0) + 1
            return
        c = pfields(ct)
        head = c['g'][0] if isinstance(c['g'], list) else c['g']
        dist['root=' + head] = dist.get('root=' + head, 0) + 1
        kind = run_result(it[1])[0] if len(it) > 1 and isinstance(it[1], list) and it[1][0] == 'run' else '?'
        dist['result=' + kind] = dist.get('result=' + kind, 0) + 1
        tc = theorem_class(c['g'])
        dist['theorem_class=' + tc] = dist.get('theorem_class=' + tc, 0) + 1
