"""C03 Every reported position is the true line and column of its byte offset."""
import re
from .. import sexp, parsegen, spangen, lexsim
from .parsebase import ParseProp
from .C04 import fields, final_config, FILTERS
from .gbase import GProp, pfields

ALPHA = ['a', 'b', 'sp', 'TAB', 'TAB', 'CR', 'LF', 'e2', 'w3', 'z3', 'w4', 'z2', 'comma', 'bang']
POS = re.compile(r'\b(\d+):(\d+):(\d+)\b')

def byte_canon(text, le, tab):
    """byte offset -> canonical position (python's own measure), unit boundaries only"""
    return {p[0]: p for p in spangen.canon_positions(text, le, tab)}

class C03(ParseProp):
    id = 'C03'
    files = ['tephra-span/src/metrics.rs', 'tephra-span/src/position.rs', 'tephra-span/src/source.rs', 'tephra/src/lexer.rs']
    rule = ('seeded random texts (<= 30 chars) over ASCII, tab, CR, LF, 2-4 byte, double-width and zero-width chars x every '
            'line ending x tab width 1..16 x every permutation and subset of the lexer builder calls (with_column_metrics, '
            'with_line_ending, with_tab_width, with_filter) x filter on/off x scanners measuring token ends by end_position / position_after_str / position_after_chars_matching x random histories; every position in '
            'token_span/parse_span/cursor_pos/peek_token_span after every operation, and - in grammar cases from every combinator family (all line endings, tab 1..16, plain/modal/literal/matching scanners, both builder orders) - every span inside '
            'returned lexers, values (captures), returned errors and sink entries, is compared with the canonical position of its byte offset under the FINAL metrics; '
            'non-trivial = text with a tab or line break or non-ASCII char and >= 2 builder calls; distinct by case')
    assumptions = ['the harness scanners measure token ends with ColumnMetrics::end_position (plain, counting), with SourceText::position_after_str (literal) or with position_after_chars_matching for whitespace runs (matching); the model measures all of them with end_position']

    def cases(self, tier, rng):
        out = []
        r = rng.fork('C03')
        n = 0
        for i in range(1500 if tier == 'quick' else 20000):
            t = spangen.random_text(r, ALPHA, 30)
            le = r.choice(['lf', 'cr', 'crlf']); tab = 1 + r.below(16)
            pool = [['metrics', le, tab], ['le', le], ['tab', tab], ['filter', r.choice(FILTERS[:5])]]
            k = r.below(5)
            build = []
            p2 = list(pool)
            for _ in range(k):
                build.append(p2.pop(r.below(len(p2))))
            # a second, different metrics call sometimes (the last one wins)
            if r.chance(1, 3):
                build.append(['tab', 1 + r.below(16)])
            if r.chance(1, 4):
                build.append(['le', r.choice(['lf', 'cr', 'crlf'])])
            ops = []
            for _ in range(3 + r.below(8)):
                ops.append(r.choice(['next', 'next', 'next', 'peek', 'sublex', 'emptyf', ['advupto', 'Comma'], ['clone', 'next', 'peek']]))
            n += 1
            out.append(parsegen.lex_case('c%d' % n, r.choice(['plain', 'counting', 'literal', 'literal', 'matching']), t, build, ops + ['drain']))
        # positions produced while PARSING: parse spans of returned lexers, captured spans, spans of returned and reported errors,
        # from every grammar family, under every line ending, tab widths 1..16, all scanners, both builder orders
        from . import C02 as c02mod, C07 as c07mod, C08 as c08mod, C10 as c10mod, C12 as c12mod, C14 as c14mod
        palpha = ['a', 'a', 'b', 'c', 'sp', 'sp', 'TAB', 'TAB', 'CR', 'LF', 'e2', 'w3', 'z3', 'w4', 'z2', 'comma', 'comma', 'semi', 'lp', 'rp', 'lk', 'rk', 'bang']
        for i in range(700 if tier == 'quick' else 9000):
            k = r.below(9)
            if k == 0: g = parsegen.gen_c06(r, 2 + r.below(8))
            elif k == 1: g = c07mod.gen_rep(r, 1 + r.below(3))
            elif k == 2: g = [r.choice(c10mod.VARIANTS), ['LP', 'LK'], r.choice([['one', 'A'], c02mod.gen_list(r), 'empty', ['spanned', ['repeat', 0, 'inf', ['any', 'A', 'B', 'Comma']]]]), ['RP', 'RK'], r.choice([[], ['Semi']])]
            elif k == 3: g = c02mod.gen_list(r)
            elif k == 4: g = [r.choice(c12mod.RCOMB), c12mod.gen_rs(r), parsegen.gen_item(r, 2)]
            elif k in (5, 6): g = ['both', ['maybe', ['one', 'A']], [r.choice(['text', 'spanned']), c14mod.gen_wrapped(r)]]
            elif k == 7: g = c08mod.gen_committed(r)
            else: g = ['both', ['repeat', 0, 'inf', ['spanned', ['any', 'A', 'B', 'U']]], ['either', 'eot', ['one', 'C']]]
            t = spangen.random_text(r, palpha, 14 if tier == 'quick' else 24)
            n += 1
            out.append(parsegen.parse_case('c%d' % n, t, g, le=r.choice(['lf', 'cr', 'crlf']), tab=1 + r.below(16),
                                           scanner=r.choice(['plain', 'plain', 'modal', 'literal', 'matching']),
                                           flt=r.choice([['drop', 'Ws'], ['drop', 'Ws'], 'none', ['drop', 'Ws', 'U']]),
                                           sink=r.below(2), pushed=[1] if r.chance(1, 5) else [], order=r.choice(['mf', 'mf', 'fm'])))
        return out

    vary_order = False          # the parse-cases choose their builder order themselves

    def nontrivial(self, ct, it):
        if ct[0] == 'parse-case':
            c = pfields(ct)
            return any(s in c['text'] for s in ('TAB', 'CR', 'LF', 'e2', 'w3', 'z3', 'w4', 'z2')) and ('spanned' in sexp.dump(it) or '(err' in sexp.dump(it) or '(sink (' in sexp.dump(it))
        c = fields(ct)
        return len(c['build']) >= 2 and any(s in c['text'] for s in ('TAB', 'CR', 'LF', 'e2', 'w3', 'z3', 'w4', 'z2'))

    def oracle(self, ct, it):
        if ct[0] == 'parse-case':
            c = pfields(ct)
            le, tab = c['le'], c['tab']
            c = {'text': c['text'], 'build': ['(parse-case: metrics %s %s)' % (le, tab)]}
        elif ct[0] == 'lex-case':
            c = fields(ct)
            le, tab, flt = final_config(c['build'])
        else:
            return []
        canon = byte_canon(c['text'], le, tab)
        fails = []
        for ei, e in enumerate(it[1:], 1):
            s = sexp.dump(e)
            for m in POS.finditer(s):
                p = (int(m.group(1)), int(m.group(2)), int(m.group(3)))
                want = canon.get(p[0])
                if want is None:
                    fails.append(((ei,), 'position %s is not on a unit boundary of the text' % (m.group(0),))); return fails
                if want != p:
                    fails.append(((ei,), 'reported position %s, canonical position of byte %d under the final metrics (%s, tab %d) is %d:%d:%d; builders: %s'
                                  % (m.group(0), p[0], le, tab, want[0], want[1], want[2], sexp.dump(c['build'])))); return fails
        return fails

    def shrink(self, ct):
        if ct[0] == 'parse-case':
            yield from GProp.shrink(self, ct)
            return
        c = fields(ct)
        t, ops = c['text'], c['ops']
        for i in range(len(c['build'])):
            yield parsegen.lex_case(ct[1], c['scanner'], t, c['build'][:i] + c['build'][i + 1:], ops)
        for i in range(len(ops)):
            yield parsegen.lex_case(ct[1], c['scanner'], t, c['build'], ops[:i] + ops[i + 1:])
        for i in range(len(t)):
            yield parsegen.lex_case(ct[1], c['scanner'], t[:i] + t[i + 1:], c['build'], ops)

PROP = C03()
