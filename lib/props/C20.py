"""C20 Windowed source texts report parent-document positions."""
from .. import sexp, spangen
from .spanbase import SpanProp, case_fields, parse_pos, parse_span, Units, fmt_pos, opt
from .C18 import expected_lines, fmt_span

ALPHA = ['a', 'TAB', 'e2', 'w3', 'CR', 'LF']

class C20(SpanProp):
    id = 'C20'
    files = ['tephra-span/src/source.rs', 'tephra-span/src/position.rs', 'tephra-span/src/metrics.rs']
    rule = ('every text up to the tier bound over {a,TAB,e2,w3,CR,LF} x {LF,CR,CRLF} x tab widths; per text every canonical '
            'span as a clipping window (clipped), then start/end/full span, owned-vs-borrowed equality, every navigation '
            'function at every canonical parent position inside the window and widen/split of every sub-span, all compared '
            'with the parent\'s results restricted to the window; plus sources created with_start_position at mid-line '
            'columns; non-trivial = window starting after position 0 in a text with a tab, wide char or line break')
    exhaustive = {'quick': True, 'thorough': True}
    assumptions = ['window spans and positions are canonical positions of the parent text']

    def cases(self, tier, rng):
        out = []
        n = 0
        maxlen = 3 if tier == 'quick' else 4
        for le in ('lf', 'cr', 'crlf'):
            for tab in ((4,) if tier == 'quick' else (3, 4)):
                for t in spangen.all_texts(ALPHA, maxlen):
                    n += 1
                    out.append(spangen.span_case('c%d' % n, le, tab, t, ['win']))
        r = rng.fork('C20')
        for i in range(300 if tier == 'quick' else 3000):
            le = r.choice(['lf', 'cr', 'crlf'])
            t = spangen.random_text(r, ALPHA + ['sp', 'z2'], 9)
            n += 1
            out.append(spangen.span_case('c%d' % n, le, 1 + r.below(8), t, ['win']))
        # sources created directly with a start position (with_start_position)
        for i in range(300 if tier == 'quick' else 2000):
            le = r.choice(['lf', 'cr', 'crlf'])
            tab = 1 + r.below(8)
            t = spangen.random_text(r, ALPHA, 7)
            off = (r.below(20), r.below(4), r.below(11))
            n += 1
            out.append(spangen.span_case('c%d' % n, le, tab, t, ['nav', 'lines'], off=off))
        # windows of a parent that itself has a start position (a window of a window), wider alphabet, tab widths up to 16
        for i in range(250 if tier == 'quick' else 3000):
            le = r.choice(['lf', 'cr', 'crlf'])
            t = spangen.random_text(r, ALPHA + ['sp', 'z2', 'w4', 'z3'], 8)
            off = (1 + r.below(20), r.below(4), r.below(14))
            n += 1
            out.append(spangen.span_case('c%d' % n, le, 1 + r.below(16), t, ['win'], off=off))
        return out

    def nontrivial(self, ct, it):
        c = case_fields(ct)
        return len(c['bases']) >= 3 and any(s in ('TAB', 'CR', 'LF', 'w3', 'e2') for s in c['text'])

    def check_nav(self, u, a, b, entries, where, fails):
        for e in entries:
            p = parse_pos(e[0]); k = u.index.get(p)
            if k is None:
                continue
            ls = max(u.lstart_k(k), a); le_ = min(u.lend_k(k), b)
            exp = [opt(u.P[k + 1]) if k < b else '-', opt(u.P[k - 1]) if k > a else '-',
                   'T' if (k < b and u.islb(k)) else 'F', fmt_pos(u.P[le_]), fmt_pos(u.P[ls]),
                   opt(u.P[ls - 1]) if ls > a else '-', opt(u.P[le_ + 1]) if le_ < b else '-', '.', '.']
            names = ['next_position', 'previous_position', 'is_line_break', 'line_end_position', 'line_start_position',
                     'previous_line_end_position', 'next_line_start_position', '', '']
            for nm, want, got in zip(names, exp, e[1:]):
                if got != want:
                    fails.append((where, '%s at %s in window %s: got %s, parent result restricted to the window %s'
                                  % (nm, e[0], fmt_span(u.P[a], u.P[b]), got, want)))

    def check_lines(self, u, a, b, entries, where, fails):
        for e in entries:
            s = parse_span(e[0]); i, j = u.index.get(s[0]), u.index.get(s[1])
            if i is None or j is None:
                continue
            widen, pieces = expected_lines(u, i, j)
            widen = (u.P[max(u.lstart_k(i), a)], u.P[min(u.lend_k(j), b)])
            if e[1] != fmt_span(*widen):
                fails.append((where, 'widen_to_line(%s) in window %s = %s, expected %s' % (e[0], fmt_span(u.P[a], u.P[b]), e[1], fmt_span(*widen))))
            if e[2][1:] != [fmt_span(*p) for p in pieces]:
                fails.append((where, 'split_lines(%s) in window %s = %s' % (e[0], fmt_span(u.P[a], u.P[b]), ' '.join(e[2][1:]))))
            want_l = [str(len(pieces) - k) for k in range(len(pieces) + 1)] + ['0']
            if e[3][1:] != want_l:
                fails.append((where, 'len() sequence of split_lines(%s) = %s' % (e[0], ' '.join(e[3][1:]))))

    def oracle(self, ct, it):
        c = case_fields(ct)
        fails = []
        u = Units(c['text'], c['le'], c['tab'], c['off'])
        for gi, g in enumerate(it[1:], 1):
            if g[0] == 'win':
                for ei, e in enumerate(g[1:], 1):
                    w = parse_span(e[0]); a, b = u.index.get(w[0]), u.index.get(w[1])
                    if a is None or b is None:
                        continue
                    if e[1] == 'PANIC':
                        fails.append(((gi, ei), 'clipped(%s) panics' % e[0])); continue
                    want = ['%d..%d' % (w[0][0] - c['off'][0], w[1][0] - c['off'][0]), fmt_pos(w[0]), fmt_pos(w[1]), fmt_span(*w), 'T']    # bytes relative to the parent string
                    for nm, wv, got in zip(['text', 'start_position', 'end_position', 'full_span', 'owned==borrowed'], want, e[1:6]):
                        if got != wv:
                            fails.append(((gi, ei), '%s of window %s: got %s, expected %s' % (nm, e[0], got, wv)))
                    self.check_nav(u, a, b, e[6][1:], (gi, ei), fails)
                    self.check_lines(u, a, b, e[7][1:], (gi, ei), fails)
            elif g[0] == 'nav' and c['off'] != (0, 0, 0):
                self.check_nav(u, 0, u.n, g[1:], (gi,), fails)
            elif g[0] == 'lines' and c['off'] != (0, 0, 0):
                self.check_lines(u, 0, u.n, g[1:], (gi,), fails)
        return fails

PROP = C20()
