"""C19 Position navigation is total and consistent with forward measurement."""
from .. import sexp, spangen
from .spanbase import SpanProp, case_fields, parse_pos, Units, CLASSES, opt, fmt_pos

ALPHA = ['a', 'b', 'sp', 'TAB', 'CR', 'LF', 'e2', 'w3', 'z3', 'w4', 'z2']
SMALL = ['a', 'TAB', 'CR', 'LF', 'e2', 'w3', 'z2']
PATS1 = [[], ['a'], ['TAB'], ['CR'], ['LF'], ['e2'], ['w3'], ['CR', 'LF'], ['a', 'a'], ['a', 'TAB'],
         ['LF', 'a'], ['e2', 'a'], ['a', 'CR'], ['z2'], ['w3', 'z2'], ['a', 'b', 'a'], ['CR', 'LF', 'a'],
         ['LF', 'CR'], ['LF', 'TAB'], ['TAB', 'a'], ['TAB', 'TAB'], ['CR', 'LF', 'TAB']]
PATS2 = [['sp'], ['z3'], ['w4'], ['z3', 'a'], ['a', 'w4'], ['sp', 'TAB']]

def split2_zero(v):
    """'X=' -> (X, X) ; 'X!Y' -> (X, Y); bare -> (X, None)"""
    if v.endswith('='):
        return v[:-1], v[:-1]
    if '!' in v:
        a, b = v.split('!', 1)
        return a, b
    return v, None

class C19(SpanProp):
    id = 'C19'
    files = ['tephra-span/src/metrics.rs', 'tephra-span/src/source.rs']
    rule = ('exhaustive small texts over the 11-symbol alphabet x line endings x tab widths, plus seeded random texts up to '
            '40 chars (a third with line breaks placed as units, a fifth as sources with a start position); per text every canonical base through every navigation function of ColumnMetrics and of the '
            'SourceText wrappers, every pattern of a fixed pattern set plus random patterns, seven character classes (two of them telling the CR and the LF of a CRLF ending apart); '
            'non-trivial = text with a tab, a wide/zero-width/multi-byte char or a line break and >= 3 positions; '
            'distinct by (text, metrics)')
    exhaustive = {'quick': False, 'thorough': False}
    vary_order = False
    assumptions = ['bases are canonical positions (the property\'s quantifier); tab width >= 1']

    def cases(self, tier, rng):
        out = []
        n = [0]
        def add(le, tab, t, pats):
            n[0] += 1
            out.append(spangen.span_case('c%d' % n[0], le, tab, t, ['nav', 'pat', 'cls'], pats,
                                         ['alpha', 'space', 'any', 'nl', 'wide', 'cr', 'notlf']))
        if tier == 'quick':
            for le in ('lf', 'cr', 'crlf'):
                for t in spangen.all_texts(SMALL, 3):
                    add(le, 4, t, PATS1)
            for le in ('lf', 'cr', 'crlf'):
                for tab in (1, 2, 3, 5, 8, 9):
                    for t in spangen.all_texts(['a', 'TAB', 'w3', 'LF' if le != 'cr' else 'CR'] + (['CR'] if le == 'crlf' else []), 3):
                        if 'TAB' in t:
                            add(le, tab, t, PATS1[:6])
            nrand = 600
        else:
            for le in ('lf', 'cr', 'crlf'):
                for t in spangen.all_texts(SMALL, 4):
                    add(le, 4, t, PATS1)
                for t in spangen.all_texts(ALPHA, 3):
                    add(le, 3, t, PATS1)
                for tab in range(1, 10):
                    for t in spangen.all_texts(['a', 'TAB', 'w3', 'CR', 'LF'], 4):
                        if 'TAB' in t:
                            add(le, tab, t, PATS1[:8])
            nrand = 6000
        r = rng.fork('C19')
        lbs = {'lf': ['LF'], 'cr': ['CR'], 'crlf': ['CR', 'LF']}
        for i in range(nrand):
            le = r.choice(['lf', 'cr', 'crlf'])
            tab = 1 + r.below(9)
            t = spangen.random_text(r, ALPHA, 40)
            if i % 3 == 1:
                # line breaks placed as units (a CRLF break is otherwise a 1-in-121 coincidence), tabs on several lines
                t = []
                for _ in range(1 + r.below(6)):
                    t += spangen.random_text(r, ['a', 'b', 'sp', 'TAB', 'TAB', 'e2', 'w3', 'z3', 'w4', 'z2'] + (['CR', 'LF'] if r.chance(1, 3) else []), 5)
                    if r.chance(5, 6): t += lbs[le]
            if i % 5 == 2:
                # a source with a start position (SourceText::with_start_position): the wrappers translate by the offset, the
                # start column may stand off a tab stop; pattern and class advances included
                t = t[:14]
                off = (r.below(30), r.below(4), r.below(12))
                n[0] += 1
                pats = [spangen.random_text(r, ALPHA, 3) for _ in range(2)] + r.choice([PATS1[:9], PATS1[9:], PATS2])
                out.append(spangen.span_case('c%d' % n[0], le, tab, t, ['nav', 'pat', 'cls'], pats,
                                             ['alpha', 'space', 'any', 'nl', 'wide', 'cr', 'notlf'], off=off))
                continue
            pats = [spangen.random_text(r, ALPHA, 3) for _ in range(3)] + (PATS2 if i % 4 == 0 else [])
            # patterns that do match: substrings of the text
            if t:
                s = r.below(len(t)); e = min(len(t), s + 1 + r.below(3))
                pats.append(t[s:e])
            add(le, tab, t, pats)
        return out

    def nontrivial(self, ct, it):
        c = case_fields(ct)
        return len(c['bases']) >= 3 and any(s in ('TAB', 'CR', 'LF', 'e2', 'w3', 'z3', 'w4', 'z2') for s in c['text'])

    def oracle(self, ct, it):
        c = case_fields(ct)
        zero = c['off'] == (0, 0, 0)
        u = Units(c['text'], c['le'], c['tab'], c['off'])
        fails = []
        def split2(got):
            # a source with a start position has no ColumnMetrics-level twin: the harness prints the SourceText result bare
            # (and `.` for start_position / end_position, which C20 observes)
            if zero:
                return split2_zero(got)
            return got, got
        for gi, g in enumerate(it[1:], 1):
            for ei, e in enumerate(g[1:], 1):
                p = parse_pos(e[0])
                k = u.index.get(p)
                if k is None:
                    continue
                if g[0] == 'nav':
                    ls, le_ = u.lstart_k(k), u.lend_k(k)
                    exp = [opt(u.next(k)), opt(u.prev(k)), 'T' if u.islb(k) else 'F', fmt_pos(u.P[le_]), fmt_pos(u.P[ls]),
                           opt(u.prev(ls)), opt(u.next(le_)), fmt_pos(u.P[0]), fmt_pos(u.P[u.n])]
                    names = ['next_position', 'previous_position', 'is_line_break', 'line_end_position', 'line_start_position',
                             'previous_line_end_position', 'next_line_start_position', 'start_position', 'end_position']
                    for nm, want, got in zip(names, exp, e[1:]):
                        if not zero and got == '.':
                            continue
                        a, b = split2(got)
                        if a != want or (b is not None and b != want):
                            fails.append(((gi, ei), '%s at %s of %s: got %s, canonical %s' % (nm, e[0], ' '.join(c['text']), got, want)))
                elif g[0] == 'pat':
                    for pat, got in zip(c['pats'], e[1:]):
                        want = opt(u.after_pat(k, pat))
                        a, b = split2(got)
                        if a != want or b != want:
                            fails.append(((gi, ei), 'position_after_str at %s pattern (%s): got %s, expected %s' % (e[0], ' '.join(pat), got, want)))
                elif g[0] == 'cls':
                    vals = e[1:]
                    for ci, cl in enumerate(c['classes']):
                        w1 = opt(u.after_class(k, CLASSES[cl])); w2 = opt(u.next_after_class(k, CLASSES[cl]))
                        for nm, want, got in (('position_after_chars_matching', w1, vals[2 * ci]),
                                              ('next_position_after_chars_matching', w2, vals[2 * ci + 1])):
                            a, b = split2(got)
                            if a != want or b != want:
                                fails.append(((gi, ei), '%s(%s) at %s: got %s, expected %s' % (nm, cl, e[0], got, want)))
        return fails

PROP = C19()
