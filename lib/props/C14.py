"""C14 Captured spans and text cover exactly the tokens consumed."""
from .. import sexp, parsegen, spangen, lexsim, peg
from .gbase import GProp, pfields, mk_case, run_result
from . import C07 as c07mod

def gen_wrapped(r):
    k = r.below(21)
    if k >= 19:
        # wrapped parsers that end by looking for the end of the text or by running out of text (seq_count, end_of_text), with
        # only filtered tokens left: they succeed without consuming those tokens
        return r.choice([['left', parsegen.gen_item(r, 2), 'eot'], ['both', ['one', 'A'], 'eot'], 'eot', ['seqcount', 'A', 'B'], ['seqcount', 'B'],
                         ['both', ['one', r.choice(['A', 'B'])], ['seqcount', 'A', 'B', 'A']], ['right', ['maybe', ['one', 'A']], ['seqcount', 'B', 'B']]])
    if k >= 17:
        # a capture nested in the wrapped parser whose own parser consumes nothing (it only looks ahead): the outer capture ends
        # with the last token consumed, whatever follows the filtered tokens behind it (a token, unrecognised text, the end)
        inner = r.choice([['maybe', ['one', 'B']], ['cond', 'F', ['one', 'A']], 'empty', ['repeat', 0, 'inf', ['one', 'C']], ['seqcount', 'B']])
        return r.choice([['both', ['one', 'A'], [r.choice(['text', 'spanned']), inner]], ['both', ['seq', 'A', 'B'], ['both', [r.choice(['text', 'spanned']), inner], ['maybe', ['one', 'C']]]],
                         ['right', ['maybe', ['one', 'B']], ['both', ['one', 'A'], ['upto', inner, ['Comma']]]]])
    if k == 14:
        # the other members of the C07 family: count / until variants, separators
        return c07mod.gen_rep(r, 1 + r.below(2))
    if k >= 15:
        # any member of the C06 family that leaves the token filter alone (with a temporary filter change inside the wrapped
        # parser there is no single 'filtered stream' for the property to speak of)
        while True:
            g = parsegen.gen_c06(r, 2 + r.below(5))
            if 'filterwith' not in sexp.dump(g) and 'unfiltered' not in sexp.dump(g):
                return g
    if k == 12:
        # a sub-parse INSIDE the wrapped parser (sub is a member of the C06 family), consuming something or nothing
        inner = r.choice(['empty', ['maybe', ['one', 'B']], ['one', 'B'], ['repeat', 0, 'inf', ['one', 'C']], ['cond', 'F', ['one', 'A']]])
        return r.choice([['both', ['one', 'A'], ['sub', inner]], ['both', ['sub', ['one', 'A']], ['sub', inner]],
                         ['right', ['maybe', ['one', 'C']], ['both', ['one', 'A'], ['sub', inner]]], ['sub', ['both', ['one', 'A'], inner]]])
    if k == 13:
        return ['sub', parsegen.gen_item(r, 1 + r.below(2))]
    if k < 3: return parsegen.gen_item(r, 1 + r.below(3))
    if k == 3: return ['maybe', ['one', r.choice(['A', 'B'])]]
    if k == 4: return ['repeat', 0, 'inf', ['one', r.choice(['A', 'C'])]]
    if k == 5: return 'empty'
    if k == 6: return ['cond', 'F', ['one', 'A']]
    if k == 7: return ['repeat', r.below(2), 'inf', ['any', 'A', 'B']]
    if k == 8: return ['seqcount', 'A', 'A', 'B']
    if k == 9: return ['both', ['maybe', ['one', 'A']], ['maybe', ['one', 'B']]]
    if k == 10: return ['intersperse', 0, 'inf', ['one', 'A'], ['one', 'Comma']]
    return ['either', ['seq', 'A', 'B'], ['maybe', ['one', 'A']]]

def sub_tail_only(got, want, toks, flt):
    """True when got and want differ, and only in that captures END later in got, the extra bytes holding nothing but
    tokens the filter drops (the recorded finding C14-sub-tail-filtered)"""
    diff = [False]
    def region_filtered(a, b):
        inside = [t for t in toks if t['start'][0] >= a and t['end'][0] <= b]
        covered = sum(t['end'][0] - t['start'][0] for t in inside)
        return covered == b - a and all(not lexsim.keeps(flt, t['kind']) for t in inside)
    def go(g, w):
        # nothing consumed at all (reference: an empty capture) but the capture holds filtered tokens: the same skip
        if isinstance(w, list) and isinstance(g, list) and len(w) >= 2 and w[1] == 'EMPTY' and g and g[0] == w[0]:
            if w[0] == 'text':
                a, b = int(g[1]), int(g[2])
                if a == b: return True
                if a < b and region_filtered(a, b): diff[0] = True; return True
                return False
            (ga, gb) = g[1].split('~')
            if not go(g[2], w[2]): return False
            a, b = int(ga.split(':')[0]), int(gb.split(':')[0])
            if a == b: return True
            if a < b and region_filtered(a, b): diff[0] = True; return True
            return False
        if isinstance(w, list) and isinstance(g, list) and w and g and w[0] == g[0] == 'text' and len(w) == 3 and len(g) == 3 and w[1] != 'EMPTY':
            a, b, a2, b2 = int(g[1]), int(g[2]), int(w[1]), int(w[2])
            if (a, b) == (a2, b2): return True
            if a == a2 and b > b2 and region_filtered(b2, b): diff[0] = True; return True
            return False
        if isinstance(w, list) and isinstance(g, list) and w and g and w[0] == g[0] == 'spanned' and len(w) == 3 and len(g) == 3 and w[1] != 'EMPTY':
            (ga, gb), (wa, wb) = g[1].split('~'), w[1].split('~')
            if not go(g[2], w[2]): return False
            if (ga, gb) == (wa, wb): return True
            b, b2 = int(gb.split(':')[0]), int(wb.split(':')[0])
            if ga == wa and b > b2 and region_filtered(b2, b): diff[0] = True; return True
            return False
        if isinstance(w, list) and isinstance(g, list) and len(w) == len(g):
            return all(go(x, y) for x, y in zip(g, w))
        return same_capture(g, w)
    return go(got, want) and diff[0]

def sub_in_capture(g):
    """a `sub` below a text / spanned node"""
    def has_sub(x):
        return isinstance(x, list) and bool(x) and (x[0] == 'sub' or any(has_sub(y) for y in x[1:]))
    if not isinstance(g, list) or not g: return False
    if g[0] in ('text', 'spanned'): return has_sub(g[1])
    return any(sub_in_capture(y) for y in g[1:])

def same_capture(got, want):
    """compare values, treating the reference's EMPTY captures as 'any empty span/text'"""
    if isinstance(want, list) and len(want) >= 2 and want[1] == 'EMPTY':
        if not (isinstance(got, list) and got and got[0] == want[0]):
            return False
        if want[0] == 'text':
            return got[1] == got[2]
        a, b = got[1].split('~')
        return a == b and same_capture(got[2], want[2])
    if isinstance(want, list) and isinstance(got, list) and len(want) == len(got):
        return all(same_capture(g, w) for g, w in zip(got, want))
    return got == want

class C14(GProp):
    id = 'C14'
    files = ['tephra-combinator/src/misc.rs', 'tephra/src/lexer.rs']
    assumptions = ['the wrapped parser does not change the token filter (with filter_with / unfiltered inside a capture there is no single filtered stream for the property to speak of: the capture starts at the first token of the OUTER stream and ends with the last token consumed under whichever filter)']
    rule = ('seeded random captures text(w) / spanned(w) with w from the C06/C07 family including nullable ones (maybe, repeat 0.., ' 'sub-parses inside w that consume something or nothing, '
            'empty, cond false, seq_count), nested in sequences so that tokens were consumed before the capture and follow after it, '
            'on random texts with filtered whitespace before, between and after the consumed tokens (incl. tabs, line breaks, '
            'multi-byte, wide and zero-display-width tokens as the first captured token; lexers built filter-first then metrics on texts starting with tabs / line breaks); the captured span / byte range is compared with [start of first consumed token, end of last] '
            'computed from the python token list, or required to be empty when nothing was consumed; non-trivial = a capture whose '
            'wrapped parser consumed nothing, or consumed tokens separated by filtered tokens; distinct by case')

    def cases(self, tier, rng):
        out = []
        r = rng.fork('C14')
        n = 0
        alpha = ['a', 'a', 'b', 'c', 'comma', 'sp', 'sp', 'TAB', 'LF', 'e2', 'bang']
        for i in range(3000 if tier == 'quick' else 40000):
            cap = [r.choice(['text', 'spanned']), gen_wrapped(r)]
            k = r.below(6)
            if k == 0: g = cap
            elif k == 1: g = ['both', ['one', r.choice(['A', 'B'])], cap]
            elif k == 2: g = ['both', cap, ['maybe', ['one', 'C']]]
            elif k == 3: g = ['both', ['maybe', ['one', 'A']], ['both', cap, ['maybe', ['one', 'B']]]]
            elif k == 4: g = ['both', ['one', 'A'], ['sub', cap]]
            else: g = ['repeat', 0, 3, ['both', ['one', 'Comma'], cap]]
            t = spangen.random_text(r, alpha, 12 if tier == 'quick' else 24)
            if i % 4 == 1:
                # short texts that end in filtered tokens (nothing but blanks / a line break behind the last token)
                t = spangen.random_text(r, ['a', 'a', 'b', 'sp', 'comma'], 1 + r.below(4)) + r.choice([['sp'], ['sp', 'sp'], ['sp', 'LF'], ['TAB']])
            inner_s = sexp.dump(cap[1])
            if ('(text' in inner_s or '(spanned' in inner_s or '(upto' in inner_s) and r.chance(2, 3):
                # a capture nested in the wrapped parser: filtered tokens behind the consumed ones, then a token / rejected text / the end
                t = r.choice([['a'], ['a', 'b'], ['b', 'a'], ['a', 'a']]) + r.choice([['sp'], ['sp', 'sp'], ['LF', 'sp']]) + r.choice([['bang'], ['bang', 'b'], ['c'], [], ['comma', 'a']])
            elif i % 4 == 3:
                # filtered tokens directly in front of text the scanner rejects
                t = spangen.random_text(r, ['a', 'a', 'b', 'sp', 'comma'], 1 + r.below(4)) + r.choice([['sp', 'bang'], ['sp', 'sp', 'bang', 'b'], ['LF', 'sp', 'bang'], ['sp', 'bang', 'sp', 'a']])
            if i % 5 == 4:
                # the capture starts at a token made of zero-display-width characters (several bytes, no column), after consumed
                # tokens and filtered tokens
                u = r.choice([['one', 'U'], ['repeat', 1, 'inf', ['any', 'U', 'A']], ['both', ['one', 'U'], ['maybe', ['one', 'B']]], ['seq', 'U', 'A']])
                cap = [r.choice(['text', 'spanned']), u]
                g = r.choice([['both', ['one', 'A'], cap], ['both', ['seq', 'B', 'A'], ['both', cap, ['maybe', ['one', 'B']]]],
                              ['both', ['one', 'A'], ['sub', cap]], ['repeat', 0, 3, ['both', ['one', 'Comma'], cap]]])
                t = spangen.random_text(r, ['a', 'a', 'b', 'comma', 'sp', 'sp', 'TAB', 'LF', 'z3', 'z3', 'z2', 'e2', 'w3'], 10)
            order = 'mf'
            if i % 7 == 6:
                # the filter installed BEFORE the metrics (the builders re-measure what the eager filter scan already
                # buffered), on texts that start with filtered tokens whose width depends on the metrics
                order = 'fm'
                t = r.choice([['TAB'], ['sp', 'TAB'], ['LF'], ['TAB', 'LF', 'TAB'], ['CR']]) + t
            n += 1
            out.append(parsegen.parse_case('c%d' % n, t, g, le=r.choice(['lf', 'crlf', 'cr']) if order == 'fm' else r.choice(['lf', 'crlf']),
                                           tab=1 + r.below(8), sink=r.below(2), order=order))
        return out

    def nontrivial(self, ct, it):
        kind, v, lx = run_result(it[1])
        if kind != 'ok':
            return False
        s = sexp.dump(v)
        return '(text' in s or '(spanned' in s

    def oracle(self, ct, it):
        c = pfields(ct)
        ref = peg.reference(c['text'], c['le'], c['tab'], c['scanner'], c['filter'], c['g'], sink=c['sink'])[0]
        if ref[0] == 'notcovered':
            return []
        kind, v, lx = run_result(it[1])
        if kind in ('panic', 'diverged'):
            return [((1,), 'capture %s on %s: %s (reference: %s)' % (sexp.dump(c['g'])[:100], ' '.join(c['text']), kind, sexp.dump(list(ref[:2]))[:120]))]
        if ref[0] == 'fail':
            return [] if kind == 'err' else [((1,), 'accepted although the reference rejects')]
        if kind != 'ok':
            return [((1,), 'rejected (%s) although the reference accepts with %s' % (sexp.dump(v)[:100], sexp.dump(ref[1])))]
        if not same_capture(v, ref[1]):
            tag = ''
            if sub_in_capture(c['g']):
                toks = lexsim.scan_all(c['text'], c['le'], c['tab'], c['scanner'])
                if sub_tail_only(v, ref[1], toks, c['filter']):
                    tag = '[sub-tail-filtered] '
            return [((1,), tag + 'captured %s; tokens consumed give %s (EMPTY = any empty span)' % (sexp.dump(v), sexp.dump(ref[1])))]
        return []

    def classify(self, ct, f):
        what = str(f.get('detail', {}).get('what', ''))
        if f.get('kind') == 'oracle' and what.startswith('[sub-tail-filtered]'):
            return 'C14-sub-tail-filtered'
        return None

PROP = C14()
