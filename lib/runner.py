"""Generic check flow: proof obligations, builds, correspondence, oracle, search, evidence."""
import json
import os
import sys
import time

from . import core, sexp
from .rng import Rng


class Prop:
    """Base class; one subclass per property in lib/props/."""
    id = None
    harness = None            # crate name under harness/
    driver_mode = None        # first argument of ocaml/driver
    files = []                # anchored Rust sources (fingerprints)
    rule = ''
    trusted_base = []
    assumptions = []
    explore_note = ''

    def cases(self, tier, rng):
        raise NotImplementedError

    def corpus(self):
        d = os.path.join(core.VERIF, 'corpus', self.id)
        out = []
        if os.path.isdir(d):
            for f in sorted(os.listdir(d)):
                if f.endswith('.case'):
                    out += [l for l in open(os.path.join(d, f)).read().split('\n') if l.strip() and not l.startswith(';')]
        return out

    def nontrivial(self, case_tree, impl_tree):
        return True

    def key(self, case_tree, impl_tree):
        """Distinctness key for distinct_nontrivial."""
        return sexp.dump(case_tree[2:])

    def oracle(self, case_tree, impl_tree):
        """Independent spec evaluated on the implementation's observations:
        list of (path-or-None, description)."""
        return []

    def classify(self, case_tree, what):
        """Known-finding id for a failing record, or None."""
        return None

    def shrink(self, case_tree):
        return []

    def describe(self, case_tree, path, impl_tree, model_tree):
        group = impl_tree[path[0]] if path else impl_tree
        gname = group[0] if isinstance(group, list) and group and isinstance(group[0], str) else '?'
        entry = core.sub_at(impl_tree, path[:2]) if len(path) >= 2 else None
        ekey = sexp.dump(entry)[:160] if entry is not None else ''
        return {'group': gname, 'entry_impl': ekey,
                'entry_model': sexp.dump(core.sub_at(model_tree, path[:2]))[:160] if len(path) >= 2 and isinstance(model_tree, list) else '',
                'impl': sexp.dump(core.sub_at(impl_tree, path)), 'model': sexp.dump(core.sub_at(model_tree, path))}

    def impl_argv(self, path):
        return [core.harness_bin(self.harness), path]

    def model_argv(self, path):
        return [os.path.join(core.OCAML, 'driver'), self.driver_mode, path]

    def extra_checks(self, ctx):
        """Hook for property-specific additional checks; returns list of failure dicts."""
        return []


def compare_case(prop, case_line, il, ml):
    """Returns list of failure dicts for one case."""
    fails = []
    if il == ml and il is not None:
        return fails, None, None
    if il == '(DIVERGED)' and ml is not None and 'DIVERGED' in ml:
        return fails, None, None
    case_tree = sexp.parse(case_line)
    if il is None or ml is None:
        fails.append({'kind': 'missing-output', 'what': 'impl' if il is None else 'model',
                      'detail': {'impl': il, 'model': ml}})
        return fails, None, None
    it, mt = sexp.parse(il), sexp.parse(ml)
    for path, a, b in core.tree_diffs(it, mt):
        d = prop.describe(case_tree, path, it, mt)
        d['path'] = list(path)
        # the implementation panics where the model computes a value: whatever the property says about that value fails
        panics = 'PANIC' in str(d.get('impl')) and 'PANIC' not in str(d.get('model'))
        fails.append({'kind': 'panic' if panics else 'correspondence', 'detail': d})
    return fails, it, mt


def run_check(prop, tier, seed):
    t0 = time.time()
    rng = Rng(seed)
    out_lines = []
    violations = []          # dicts
    known_met = {}
    notes = []

    # 1. proof side
    proof = core.proof_side(prop.id, tier)

    # 2. builds
    ok_d, log_d = core.build_driver()
    ok_h, log_h, build_s = core.build_harness(prop.harness)
    if not ok_d:
        print('ERROR: model driver does not build\n' + log_d[-2000:])
    if not ok_h:
        notes.append('harness build failed')

    cases = []
    impl = model = []
    info = {}
    evaluations = 0
    nontrivial_keys = set()
    samples = []
    dist = {}
    disagreements = 0
    oracle_evals = 0
    if ok_d and ok_h:
        # alphabet tie
        rc1, a1, _ = core.sh([core.harness_bin(prop.harness), '--alphabet'])
        rc2, a2, _ = core.sh([os.path.join(core.OCAML, 'driver'), '--alphabet'])
        if prop.harness == 'hspan' or True:
            if rc1 == 0 and a1.strip() != a2.strip():
                violations.append({'kind': 'alphabet', 'detail': {'impl': a1[:400], 'model': a2[:400]},
                                   'case': '(alphabet)'})
        gen = prop.cases(tier, rng)
        # builder order: every ninth pair of generated grammar cases builds its lexer filter-first, then metrics
        # (`(order fm)`); the final configuration - all the oracles look at - is the same
        if getattr(prop, 'vary_order', True):
            gen = [(c.replace(' (text', ' (order fm) (text', 1)
                    if c.startswith('(parse-case') and ' (order ' not in c and (i // 2) % 9 == 4 else c)
                   for i, c in enumerate(gen)]
        cases = prop.corpus() + gen
        impl, model, info = core.run_both(prop.id, cases, prop.impl_argv, prop.model_argv,
                                          timeout=getattr(prop, 'run_timeout', {}).get(tier, 600),
                                          supervise=getattr(prop, 'supervise', None))
        for idx, case_line in enumerate(cases):
            il, ml = impl[idx], model[idx]
            evaluations += 1
            fails, it, mt = compare_case(prop, case_line, il, ml)
            case_tree = None
            if fails:
                disagreements += 1
                case_tree = sexp.parse(case_line)
                for f in fails:
                    f['case'] = case_line
                    kid = prop.classify(case_tree, f)
                    if kid:
                        known_met.setdefault(kid, f)
                    else:
                        violations.append(f)
            if il is not None and (il.startswith('(DIVERGED)') or il.startswith('(CRASHED')):
                case_tree = case_tree or sexp.parse(case_line)
                f = {'kind': 'diverged' if il.startswith('(DIVERGED)') else 'crashed', 'case': case_line,
                     'detail': {'what': 'the implementation did not return within the per-case time limit' if il.startswith('(DIVERGED)')
                                else 'the harness process died on this case: ' + il, 'model': (ml or '')[:200]}}
                kid = prop.classify(case_tree, f)
                if kid:
                    known_met.setdefault(kid, f)
                else:
                    violations.append(f)
                continue
            if il is not None:
                if it is None:
                    it = sexp.parse(il)
                if case_tree is None:
                    case_tree = sexp.parse(case_line)
                for path, desc in prop.oracle(case_tree, it):
                    oracle_evals += 1
                    f = {'kind': 'oracle', 'case': case_line, 'detail': {'path': path, 'what': desc}}
                    kid = prop.classify(case_tree, f)
                    if kid:
                        known_met.setdefault(kid, f)
                    else:
                        violations.append(f)
                if prop.nontrivial(case_tree, it):
                    nontrivial_keys.add(prop.key(case_tree, it))
                if len(samples) < 3 and idx % max(1, len(cases) // 3) == 0:
                    samples.append({'case': case_line[:600], 'impl': il[:600]})
                prop.tally(case_tree, it, dist) if hasattr(prop, 'tally') else None
        if info.get('crashes'):
            for k, side, rc in info['crashes']:
                violations.append({'kind': 'crash', 'case': '(shard %d)' % k,
                                   'detail': {'side': side, 'rc': rc}})
        for f in prop.extra_checks({'tier': tier, 'rng': rng, 'cases': cases, 'impl': impl, 'model': model}):
            kid = f.get('known')
            if kid:
                known_met.setdefault(kid, f)
            else:
                violations.append(f)

    if os.environ.get('VERIF_TRIAGE'):
        hist = {}
        for v in violations:
            d = v.get('detail', {})
            k = v.get('kind', '') + ':' + (str(d.get('what', '')).split(' at ')[0].split(':')[0][:60] if v.get('kind') == 'oracle'
                                          else '%s#%s' % (d.get('group'), (d.get('path') or [0, 0, 0])[-1]))
            hist.setdefault(k, []).append(v)
        for k, vs in sorted(hist.items(), key=lambda kv: -len(kv[1])):
            print('TRIAGE %6d %s   e.g. %s | %s' % (len(vs), k, vs[0].get('case', '')[:150], json.dumps(vs[0].get('detail'))[:300]))

    # 3. decide. A failing input is a case on which the PROPERTY fails on the implementation's own observations: the
    # property oracle rejects them, or the implementation panics / crashes / diverges where the model does not. A case on
    # which model and implementation merely differ means the correspondence no longer checks (the property is no longer
    # shown to hold): reported too, with the minimal disagreeing case in the replay, as no-failing-input-found.
    status = 0
    replay_paths = []
    PROPERTY_KINDS = ('oracle', 'panic', 'diverged', 'crashed', 'crash')
    failing = [v for v in violations if v.get('kind') in PROPERTY_KINDS or (v.get('kind') == 'missing-output' and v.get('what') == 'impl')]
    if violations:
        first = failing[0] if failing else violations[0]
        small = shrink_violation(prop, first) if first.get('kind') in ('correspondence', 'oracle', 'panic') else first
        if failing and small.get('kind') != first.get('kind'):
            small = first          # keep a replay on which the property itself fails
        path = core.write_replay(prop.id, seed, 0, {
            'case': small.get('case'), 'original_case': first.get('case'), 'kind': small.get('kind'),
            'detail': small.get('detail'), 'total_violating_records': len(violations),
            'failing_input_found': bool(failing),
            'broken': None if failing else 'correspondence between coq/theories (model run by ocaml/driver, mode %s) and /repo (harness/%s): observation group %s'
                      % (prop.driver_mode, prop.harness, (small.get('detail') or {}).get('group')),
            'others': [{'case': v.get('case', '')[:300], 'detail': v.get('detail')} for v in (failing or violations)[1:6]],
            'driver_mode': prop.driver_mode, 'harness': prop.harness})
        replay_paths.append(path)
        print('VIOLATION property=%s replay=%s%s' % (prop.id, path, '' if failing else ' no-failing-input-found'))
        status = 1
    if not proof.get('ok') or not ok_h or not ok_d:
        # the property is no longer shown to hold
        if not violations:
            path = core.write_replay(prop.id, seed, 1, {
                'kind': 'proof-or-build', 'broken': proof.get('failed_theorem') or ('harness build' if not ok_h else 'proof side'),
                'problems': proof.get('problems'), 'harness_log': (log_h[-1500:] if not ok_h else '')})
            replay_paths.append(path)
            print('VIOLATION property=%s replay=%s no-failing-input-found' % (prop.id, path))
        status = 1
    for kid, f in sorted(known_met.items()):
        what = kf_text(prop.id, kid)
        print('KNOWN-FINDING: property=%s %s' % (prop.id, what))

    wall = time.time() - t0
    coverage = {
        'obligations': proof.get('obligations', 0),
        'discharged': proof.get('discharged', 0),
        'checker_cmd': 'cd coq && make -k -j16 && coqc -Q theories Tephra -Q properties TephraProps properties/%s.v' % prop.id,
        'trusted_base': prop.trusted_base,
        'theorems': [{'name': n, 'axioms': a} for n, a in proof.get('theorems', [])],
        'coqchk': proof.get('coqchk', 'not run in this tier (thorough tier runs coqchk -o on the property module)'),
        'proof_problems': proof.get('problems', []),
        'evaluations': evaluations,
        'distinct_nontrivial': len(nontrivial_keys),
        'rule': prop.rule,
        'samples': samples,
        'traces_validated_against_impl': evaluations,
        'disagreements_checked': disagreements,
        'oracle_failures_examined': oracle_evals,
        'input_distribution': dist,
        'known_findings_met': sorted(known_met.keys()),
        'source_fingerprints': core.source_fingerprints(prop.files),
        'shards': info.get('shards'),
        'exhaustive': getattr(prop, 'exhaustive', {}).get(tier, False),
        'explanation': prop.explore_note,
        'replays': replay_paths,
    }
    core.write_evidence(prop.id, tier, seed, coverage, wall, len(violations), prop.assumptions)
    kinds = {}
    for v in violations:
        kinds[v.get('kind', '?')] = kinds.get(v.get('kind', '?'), 0) + 1
    print('%s %s: obligations %d/%d, %d cases (%d non-trivial distinct), %d disagreeing, %d violations%s, %d known findings, %.1fs'
          % (prop.id, tier, coverage['discharged'], coverage['obligations'], evaluations,
             len(nontrivial_keys), disagreements, len(violations),
             (' (' + ', '.join('%d %s' % (n, k) for k, n in sorted(kinds.items())) + ')') if kinds else '',
             len(known_met), wall))
    return status


def kf_text(pid, kid):
    for e in core.load_known_findings():
        if e.get('id') == kid:
            return '%s: %s' % (kid, e.get('what', ''))
    return kid


def still_fails(prop, case_line, want_kind):
    impl, model, _ = core.run_both(prop.id, [case_line], prop.impl_argv, prop.model_argv, tag='shrink',
                                    supervise=getattr(prop, 'supervise', None))
    return evaluate_single(prop, case_line, impl[0], model[0])


def evaluate_single(prop, case_line, il, ml):
    """All unclassified failures of a single case (correspondence + oracle)."""
    res = []
    fails, it, mt = compare_case(prop, case_line, il, ml)
    case_tree = sexp.parse(case_line)
    for f in fails:
        f['case'] = case_line
        if not prop.classify(case_tree, f):
            res.append(f)
    if il is not None:
        it = it or sexp.parse(il)
        for path, desc in prop.oracle(case_tree, it):
            f = {'kind': 'oracle', 'case': case_line, 'detail': {'path': path, 'what': desc}}
            if not prop.classify(case_tree, f):
                res.append(f)
    return res


def shrink_violation(prop, viol, rounds=12):
    cur = viol
    for _ in range(rounds):
        try:
            cands = list(prop.shrink(sexp.parse(cur['case'])))
        except Exception:
            break
        if not cands:
            break
        sup = getattr(prop, 'supervise', None)
        impl, model, _ = core.run_both(prop.id, cands, prop.impl_argv, prop.model_argv, tag='shrink', timeout=40,
                                       supervise=min(sup, 1.5) if sup else None)
        nxt = None
        for c, il, ml in zip(cands, impl, model):
            fs = [f for f in evaluate_single(prop, c, il, ml) if f.get('kind') == viol.get('kind')]
            if fs:
                nxt = fs[0]
                break
        if nxt is None:
            break
        cur = nxt
    return cur


def replay(path):
    from . import props
    data = json.load(open(path))
    prop = props.get(data['property'])
    if not data.get('case') or data.get('kind') in ('proof-or-build', 'alphabet', 'crash'):
        print('replay names a broken obligation, not an input: %s' % data.get('broken'))
        proof = core.proof_side(prop.id)
        ok_h, log_h, _ = core.build_harness(prop.harness)
        print('proof side ok=%s problems=%s; harness build ok=%s' % (proof.get('ok'), proof.get('problems'), ok_h))
        return 0 if proof.get('ok') and ok_h else 1
    core.build_driver()
    core.build_harness(prop.harness)
    impl, model, _ = core.run_both(prop.id, [data['case']], prop.impl_argv, prop.model_argv, tag='replay')
    fs = evaluate_single(prop, data['case'], impl[0], model[0])
    print('case : ' + data['case'])
    for f in fs[:10]:
        print('FAIL : ' + json.dumps(f.get('detail')))
    if fs:
        print('VIOLATION property=%s replay=%s' % (prop.id, path))
        return 1
    print('replay passes: implementation and model/spec agree on this case')
    return 0
