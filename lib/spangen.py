"""Generators for span-layer cases (harness/FORMAT-span.md)."""
import itertools

# symbol -> (len_utf8, width)
ALPHABET = {
    'a': (1, 1), 'b': (1, 1), 'c': (1, 1), 'd': (1, 1), 'x': (1, 1), 'sp': (1, 1),
    'TAB': (1, 0), 'CR': (1, 0), 'LF': (1, 0),
    'e2': (2, 1), 'w3': (3, 2), 'z3': (3, 0), 'w4': (4, 2), 'z2': (2, 0),
    'bang': (1, 1), 'comma': (1, 1), 'semi': (1, 1), 'hash': (1, 1),
    'lp': (1, 1), 'rp': (1, 1), 'lk': (1, 1), 'rk': (1, 1), 'lc': (1, 1), 'rc': (1, 1),
}
LB = {'lf': ['LF'], 'cr': ['CR'], 'crlf': ['CR', 'LF']}

def units(text, le):
    """Greedy split into line breaks and single characters."""
    lb = LB[le]
    out = []
    i = 0
    while i < len(text):
        if text[i:i + len(lb)] == lb:
            out.append(('lb', lb)); i += len(lb)
        else:
            out.append(('ch', [text[i]])); i += 1
    return out

def canon_positions(text, le, tab, start=(0, 0, 0)):
    """All canonical positions (byte, line, col) of a text, in order (python's own measure)."""
    b, l, c = start
    res = [(b, l, c)]
    for kind, syms in units(text, le):
        if kind == 'lb':
            b += len(syms); l += 1; c = 0
        else:
            s = syms[0]
            ln, w = ALPHABET[s]
            b += ln
            if s == 'TAB':
                c += (tab - (c % tab)) if tab > 0 else 0     # tab width 0 is outside every quantifier (the library panics there)
            else:
                c += w
        res.append((b, l, c))
    return res

def span_case(cid, le, tab, text, ops, pats=(), classes=(), off=(0, 0, 0), bases=None):
    if bases is None:
        bases = canon_positions(text, le, tab, off)
    return '(span-case %s (le %s) (tab %d) (off %d %d %d) (text%s) (bases%s) (pats%s) (classes%s) (ops%s))' % (
        cid, le, tab, off[0], off[1], off[2],
        ''.join(' ' + s for s in text),
        ''.join(' (%d %d %d)' % p for p in bases),
        ''.join(' (' + ' '.join(p) + ')' for p in pats),
        ''.join(' ' + c for c in classes),
        ''.join(' ' + o for o in ops))

def all_texts(alphabet, maxlen):
    for n in range(maxlen + 1):
        for t in itertools.product(alphabet, repeat=n):
            yield list(t)

def random_text(rng, alphabet, maxlen):
    n = rng.below(maxlen + 1)
    return [rng.choice(alphabet) for _ in range(n)]
