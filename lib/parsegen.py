"""Generators for lexer / context / grammar cases (harness/FORMAT-parse.md)."""
from . import spangen

KINDS = ['A', 'B', 'C', 'D', 'X', 'U', 'Ws', 'Comma', 'Semi', 'Hash', 'LP', 'RP', 'LK', 'RK', 'LC', 'RC']
SYM_KIND = {'a': 'A', 'b': 'B', 'c': 'C', 'd': 'D', 'x': 'X', 'e2': 'U', 'w3': 'U', 'z3': 'U', 'w4': 'U', 'z2': 'U',
            'comma': 'Comma', 'semi': 'Semi', 'hash': 'Hash', 'lp': 'LP', 'rp': 'RP', 'lk': 'LK', 'rk': 'RK',
            'lc': 'LC', 'rc': 'RC'}
WS = {'sp', 'TAB', 'CR', 'LF'}

def tokens_of(text):
    """python's own tokenisation (plain scanner): list of (kind, start_index, end_index) up to the first '!'."""
    out = []
    i = 0
    while i < len(text):
        s = text[i]
        if s in WS:
            j = i
            while j < len(text) and text[j] in WS:
                j += 1
            out.append(('Ws', i, j)); i = j
        elif s == 'bang':
            break
        else:
            out.append((SYM_KIND[s], i, i + 1)); i += 1
    return out

def sx(x):
    if isinstance(x, (list, tuple)):
        return '(' + ' '.join(sx(y) for y in x) + ')'
    return str(x)

def ctx_case(cid, sink, trees):
    return '(ctx-case %s (sink %d) (tree%s))' % (cid, sink, ''.join(' ' + sx(t) for t in trees))

def random_ctree(r, depth, counter):
    """counter: [next probe id, next tag]"""
    if depth <= 0 or r.chance(1, 4):
        counter[0] += 1
        return [r.choice(['send', 'send', 'apply']), counter[0]]
    k = r.choice(['push', 'push', 'pushmut', 'locked', 'fork', 'raw', 'unrec'])
    kids = [random_ctree(r, depth - 1, counter) for _ in range(1 + r.below(3))]
    if k in ('push', 'pushmut'):
        counter[1] += 1
        return [k, counter[1]] + kids
    if k == 'locked':
        return [k, r.choice(['T', 'F'])] + kids
    return [k] + kids

def lex_case(cid, scanner, text, build, ops):
    return '(lex-case %s (scanner %s) (text%s) (build%s) (ops%s))' % (
        cid, scanner, ''.join(' ' + s for s in text), ''.join(' ' + sx(b) for b in build), ''.join(' ' + sx(o) for o in ops))

def parse_case(cid, text, g, le='lf', tab=4, scanner='plain', flt=('drop', 'Ws'), sink=1, pushed=(), fmt=0, runs=1):
    return '(parse-case %s (le %s) (tab %d) (scanner %s) (filter %s) (sink %d) (pushed%s) (fmt %d) (runs %d) (text%s) (g %s))' % (
        cid, le, tab, scanner, sx(flt), sink, ''.join(' %d' % t for t in pushed), fmt, runs,
        ''.join(' ' + s for s in text), sx(g))
