"""Generators for lexer / context / grammar cases (harness/FORMAT-parse.md)."""
from . import spangen

KINDS = ['A', 'B', 'C', 'D', 'X', 'U', 'Ws', 'Comma', 'Semi', 'Hash', 'LP', 'RP', 'LK', 'RK', 'LC', 'RC']
SYM_KIND = {'a': 'A', 'b': 'B', 'c': 'C', 'd': 'D', 'x': 'X', 'e2': 'U', 'w3': 'U', 'z3': 'U', 'w4': 'U', 'z2': 'U',
            'comma': 'Comma', 'semi': 'Semi', 'hash': 'Hash', 'lp': 'LP', 'rp': 'RP', 'lk': 'LK', 'rk': 'RK',
            'lc': 'LC', 'rc': 'RC'}
WS = {'sp', 'TAB', 'CR', 'LF'}

def tokens_of(text):
    """python's own tokenisation (plain scanner): list of (kind, start_index, end_index) up to the first '!'."""
    out = []
    i = 0
    while i < len(text):
        s = text[i]
        if s in WS:
            j = i
            while j < len(text) and text[j] in WS:
                j += 1
            out.append(('Ws', i, j)); i = j
        elif s == 'bang':
            break
        else:
            out.append((SYM_KIND[s], i, i + 1)); i += 1
    return out

def sx(x):
    if isinstance(x, (list, tuple)):
        return '(' + ' '.join(sx(y) for y in x) + ')'
    return str(x)

def ctx_case(cid, sink, trees):
    return '(ctx-case %s (sink %d) (tree%s))' % (cid, sink, ''.join(' ' + sx(t) for t in trees))

def hctx_case(cid, ops):
    return '(hctx-case %s (ops%s))' % (cid, ''.join(' ' + sx(o) for o in ops))

def random_hctx_ops(r, n, mutating=True):
    """a history over the whole Context API on four registers, two sink slots, two local slots. A saved local
    context is restored only into the register it was taken from, and only while that register has not been
    overwritten (anything else can tie a parent chain into a cycle: API misuse, not generated)."""
    ops = []
    probe = 0
    owner = {0: None, 1: None}            # local slot -> register it was taken from (still valid)
    def wrote(i):
        for l in owner:
            if owner[l] == i: owner[l] = None
    ops.append(['new', 0, r.choice([0, 0, 1, '-'])])
    for _ in range(n):
        k = r.below(20 if mutating else 14)
        i, j = r.below(4), r.below(4)
        if k == 0: ops.append(['new', i, r.choice([0, 1, '-'])]); wrote(i)
        elif k in (1, 2): ops.append(['clone', i, j]); wrote(j)
        elif k in (3, 4): ops.append(['pushed', i, j, 1 + r.below(9)]); wrote(j)
        elif k == 5: ops.append(['push', i, 1 + r.below(9)]); wrote(i)
        elif k == 6: ops.append(['locked', i, r.choice(['T', 'F'])]); wrote(i)
        elif k == 7: ops.append(['nosink', i, j]); wrote(j)
        elif k == 8: ops.append(['nolocal', i, j]); wrote(j)
        elif k in (9, 10, 11):
            probe += 1; ops.append(['send', i, probe])
        elif k in (12, 13):
            probe += 1; ops.append(['apply', i, probe])
        elif k in (14, 15): ops.append(['takesink', i, r.below(2)])
        elif k in (16, 17): ops.append(['replsink', i, r.below(2)])
        elif k == 18:
            l = r.below(2); ops.append(['takelocal', i, l]); owner[l] = i
        else:
            cand = [l for l in owner if owner[l] is not None]
            if cand:
                l = r.choice(cand); ops.append(['repllocal', owner[l], l]); owner[l] = None
            else:
                probe += 1; ops.append(['send', i, probe])
    for i in range(4):
        probe += 1; ops.append(['send', i, probe])
        probe += 1; ops.append(['apply', i, probe])
    return ops

def random_ctree(r, depth, counter):
    """counter: [next probe id, next tag]"""
    if depth <= 0 or r.chance(1, 4):
        counter[0] += 1
        return [r.choice(['send', 'send', 'apply']), counter[0]]
    k = r.choice(['push', 'push', 'pushmut', 'locked', 'fork', 'raw', 'unrec', 'rawf', 'unrecf'])
    kids = [random_ctree(r, depth - 1, counter) for _ in range(1 + r.below(3))]
    if k in ('push', 'pushmut'):
        if counter[1] >= 1 and r.chance(1, 4):
            return [k, 1 + r.below(counter[1])] + kids          # a tag already in use (also on the same path): order must still show
        counter[1] += 1
        return [k, counter[1]] + kids
    if k == 'locked':
        return [k, r.choice(['T', 'F'])] + kids
    return [k] + kids

def lex_case(cid, scanner, text, build, ops):
    return '(lex-case %s (scanner %s) (text%s) (build%s) (ops%s))' % (
        cid, scanner, ''.join(' ' + s for s in text), ''.join(' ' + sx(b) for b in build), ''.join(' ' + sx(o) for o in ops))

def parse_case(cid, text, g, le='lf', tab=4, scanner='plain', flt=('drop', 'Ws'), sink=1, pushed=(), fmt=0, runs=1, order='mf'):
    return '(parse-case %s (le %s) (tab %d) (scanner %s) (filter %s) (sink %d) (pushed%s) (fmt %d) (runs %d)%s (text%s) (g %s))' % (
        cid, le, tab, scanner, sx(flt), sink, ''.join(' %d' % t for t in pushed), fmt, runs,
        ' (order fm)' if order == 'fm' else '', ''.join(' ' + s for s in text), sx(g))

# ---------------------------------------------------------------------------------------------
# grammar generators
# ---------------------------------------------------------------------------------------------
LEAF_KINDS = ['A', 'B', 'C', 'Comma']

def leaf(r, kinds=LEAF_KINDS):
    k = r.below(10)
    if k < 4: return ['one', r.choice(kinds)]
    if k == 4: return ['any'] + sorted(set(r.choice(kinds) for _ in range(2)))
    if k == 5: return ['anyidx'] + sorted(set(r.choice(kinds) for _ in range(2)))
    if k == 6: return ['seq'] + [r.choice(kinds) for _ in range(1 + r.below(2))]
    if k == 7: return ['seqcount'] + [r.choice(kinds) for _ in range(1 + r.below(3))]
    if k == 8: return r.choice([['pred', ['is', r.choice(kinds)]], ['pred', ['not', ['is', r.choice(kinds)]]],
                                ['pred', ['or', ['is', 'A'], ['is', 'B']]], ['pred', ['and', ['not', ['is', 'A']], ['not', ['is', 'Ws']]]]])
    return r.choice(['empty', 'eot'])

C06_FILTERS = [['drop', 'Ws'], ['drop', 'Ws', 'Comma'], ['keep', 'A', 'B', 'Ws']]

def gen_c06(r, size, kinds=None):
    """random grammar over the C06 fragment; with [kinds] every leaf accepts tokens of these kinds only"""
    if kinds is not None:
        return gen_c06_over(r, size, kinds)
    if size <= 1:
        return leaf(r)
    k = r.below(22)
    a = lambda: gen_c06(r, size // 2)
    if k < 3: return ['both', a(), a()]
    if k == 3: return ['left', a(), a()]
    if k == 4: return ['right', a(), a()]
    if k == 5: return ['center', gen_c06(r, size // 3), gen_c06(r, size // 3), gen_c06(r, size // 3)]
    if k == 6: return ['map', r.below(9), gen_c06(r, size - 1)]
    if k == 7: return ['discard', gen_c06(r, size - 1)]
    if k < 11: return ['either', a(), a()]
    if k < 13: return ['maybe', gen_c06(r, size - 1)]
    if k == 13: return ['reqif', r.choice(['T', 'F']), gen_c06(r, size - 1)]
    if k == 14: return ['cond', r.choice(['T', 'F']), gen_c06(r, size - 1)]
    if k == 15: return [r.choice(['implies', 'antecedent', 'consequent']), a(), a()]
    if k == 16: return ['condimplies', a(), r.choice(['always', 'never', ['istok', 'A']]), a()]
    if k == 17: return ['filterwith', r.choice(C06_FILTERS), gen_c06(r, size - 1)]
    if k == 18: return ['unfiltered', gen_c06(r, size - 1)]
    if k == 19: return ['sub', gen_c06(r, size - 1)]
    return leaf(r)

def gen_c06_over(r, size, kinds):
    """C06 grammars whose leaves accept only tokens of [kinds] (items of lists: separator- and abort-free)"""
    if size <= 1:
        k = r.below(6)
        if k < 3: return ['one', r.choice(kinds)]
        if k == 3: return ['any'] + sorted(set(r.choice(kinds) for _ in range(2)))
        if k == 4: return ['seq'] + [r.choice(kinds) for _ in range(1 + r.below(2))]
        return ['pred', ['is', r.choice(kinds)]]
    k = r.below(10)
    a = lambda: gen_c06_over(r, size // 2, kinds)
    if k < 3: return ['both', a(), a()]
    if k == 3: return [r.choice(['left', 'right']), a(), a()]
    if k < 6: return ['either', a(), a()]
    if k == 6: return ['maybe', gen_c06_over(r, size - 1, kinds)]
    if k == 7: return ['map', r.below(9), gen_c06_over(r, size - 1, kinds)]
    if k == 8: return [r.choice(['implies', 'antecedent', 'consequent']), a(), a()]
    return gen_c06_over(r, 1, kinds)

def nonnullable_leaf(r, kinds=LEAF_KINDS):
    k = r.below(5)
    if k < 3: return ['one', r.choice(kinds)]
    if k == 3: return ['any'] + sorted(set(r.choice(kinds) for _ in range(2)))
    return ['seq'] + [r.choice(kinds) for _ in range(1 + r.below(2))]

def gen_item(r, size, kinds=LEAF_KINDS):
    """non-nullable item parser from the C06 family (syntactic test: every path consumes a token)"""
    if size <= 1:
        return nonnullable_leaf(r, kinds)
    k = r.below(8)
    if k == 0: return ['both', gen_item(r, size // 2, kinds), gen_c06(r, size // 2, None if kinds is LEAF_KINDS else kinds)]
    if k == 1: return ['both', nonnullable_leaf(r, kinds), ['maybe', nonnullable_leaf(r, kinds)]]
    if k == 2: return ['either', gen_item(r, size // 2, kinds), gen_item(r, size // 2, kinds)]
    if k == 3: return ['map', r.below(9), gen_item(r, size - 1, kinds)]
    if k == 4: return ['right', ['maybe', nonnullable_leaf(r, kinds)], gen_item(r, size // 2, kinds)]
    return nonnullable_leaf(r, kinds)

def gsize(g):
    return 1 if not isinstance(g, list) else 1 + sum(gsize(x) for x in g[1:])

def gsubterms(g):
    """direct sub-grammars (positions and terms) of a grammar node"""
    if not isinstance(g, list):
        return []
    out = []
    for i, x in enumerate(g[1:], 1):
        if x in ('empty', 'eot', 'userfail') or (isinstance(x, list) and x and isinstance(x[0], str) and x[0] in GHEADS):
            out.append((i, x))
    return out

GHEADS = {'one', 'any', 'anyidx', 'seq', 'seqcount', 'pred', 'left', 'right', 'both', 'center', 'map', 'discard', 'text', 'spanned',
          'sub', 'either', 'maybe', 'reqif', 'cond', 'implies', 'antecedent', 'consequent', 'condimplies', 'filterwith', 'unfiltered',
          'raw', 'unrec', 'recover', 'recoverdef', 'recoverdelayed', 'recoverdefdelayed', 'stabilize', 'repeat', 'repeatcount',
          'repeatuntil', 'repeatcountuntil', 'intersperse', 'interspersecount', 'intersperseuntil', 'interspersecountuntil',
          'interspersedef', 'bracket', 'bracketdef', 'bracketidx', 'bracketdefidx', 'upto', 'list', 'listb', 'listdef', 'listbdef',
          'ctxpush', 'probe'}

def shrink_grammar(g):
    """smaller grammars: replace a node by a sub-grammar or by a leaf"""
    rep0 = isinstance(g, list) and (g[0].startswith('repeat') or g[0].startswith('intersperse') or g[0].startswith('list'))
    for i, x in gsubterms(g):
        yield x
    for i, x in gsubterms(g):
        if rep0:
            continue
        for y in shrink_grammar(x):
            yield g[:i] + [y] + g[i + 1:]
        # never replace a repetition / list item (or separator) by a nullable parser: the library
        # documents non-nullable bodies as a precondition (an unbounded loop otherwise)
        rep = isinstance(g, list) and (g[0].startswith('repeat') or g[0].startswith('intersperse') or g[0].startswith('list'))
        if x != 'empty' and not rep and not (isinstance(x, list) and x[0] == 'one'):
            yield g[:i] + ['empty'] + g[i + 1:]
