#!/bin/sh
# Validate MANIFEST.json and evidence/*.json against the schemas (needs the tooling venv).
cd "$(dirname "$0")"
python3-vt - <<'PY'
import json, jsonschema, glob
jsonschema.validate(json.load(open('MANIFEST.json')), json.load(open('/root/.vp/MANIFEST.schema.json')))
print('manifest ok')
sch = json.load(open('/root/.vp/EVIDENCE.schema.json'))
for f in sorted(glob.glob('evidence/*.json')):
    jsonschema.validate(json.load(open(f)), sch); print(f, 'ok')
PY
