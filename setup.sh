#!/bin/sh
# Build the framework from files on disk only (offline): full .vo build of the Rocq
# development, extraction + OCaml driver, Rust harness crates against /repo.
set -e
cd "$(dirname "$0")"
export CARGO_NET_OFFLINE=true CARGO_TARGET_DIR="$PWD/harness/target"
( cd coq && coq_makefile -f _CoqProject -o Makefile >/dev/null 2>&1 && timeout 3000 make -k -j16 2>&1 | grep -v '^Warning' | tail -40 ) || echo "setup: some Coq files failed to build (reported per property by ./check)"
sh ocaml/build.sh
for c in harness/*/Cargo.toml; do
  d=$(dirname "$c")
  [ -f "$d/Cargo.lock" ] || cp /repo/Cargo.lock "$d/Cargo.lock"
  cargo build --offline --manifest-path "$c" 2>&1 | tail -3
done
echo "setup done"
