#!/usr/bin/env python3
"""Regenerates MANIFEST.json from the claims below (run after adding a property)."""
import json, os
HERE = os.path.dirname(os.path.abspath(__file__))
COMMON_NOTE = ('Trusted: Coq 8.16.1 kernel (no native_compute; vm_compute only in Examples); the hand-written Gallina model, tied to /repo '
               'only by this check\'s correspondence run (extracted model vs. real code on the same inputs, bounded by the generators described in the evidence); '
               'extraction with ExtrOcamlBasic only (no Extract Constant; nat stays Peano), OCaml 4.13.1 and ocaml/*.ml; the Rust harness and lib/*.py. '
               'Axioms (Print Assumptions on every property theorem): none - closed under the global context. ')
CLAIMS = {
 'C03': {
  'text': 'Machine-checked theorems: (i) the harness scanners map every canonical start position to a canonical end position strictly further on (a token is a whole number of units: by the greedy-reading lemma units_app, for all texts/line endings/tab widths); (ii) a new lexer holds only canonical positions and next, peek, set_filter/with_filter, start_sublex preserve that for every outcome, hence in any order and number (parse start, token start, cursor and both look-ahead positions - everything token_span/parse_span/peek_token_span/cursor_pos are built from); canonical = the declarative triple of C19. The builder-order part (metrics builders re-measure positions) and every span inside values and errors of grammar runs are decided by the correspondence run and a python oracle that recomputes the canonical position of every reported byte offset under the FINAL metrics.',
  'ref': 'DESIGN.md 4 C03', 'note': 'Modelled, not verified: lexer.rs, metrics.rs, the three harness scanners. Scanner hypothesis (tokens never end inside a CRLF, ends measured with end_position) is PROVED for the harness scanners; for user scanners it is an assumption. Remeasuring after a metrics builder is covered by correspondence, not by a theorem.',
  'technique': 'Rocq proof (scanner canonicity via unit alignment; position invariant over all lexer operations) + correspondence'},
 'C04': {
  'text': 'Machine-checked refinement of the concrete lexer (scanner state, one-token look-ahead buffer, eager skipping, parse/token/cursor positions) to the sequential scan of the text: representation invariant Inv preserved by every operation; draining a lexer yields exactly the entries of the sequential scan that the filter keeps - same tokens, same spans, same scanner states - in order (c_drain_spec, for every text, filter and scanner state); the sequential scan tiles the text up to the first rejected position (stream_tiles); after each delivery the parse span runs from the start of the first delivered token to the end of the last (c_drain3_fresh). Correspondence: next-to-exhaustion and iter_with_spans on exhaustive small and random texts, 9 filters, plain/counting/modal scanners, against the real Lexer; python reference tokenisation as oracle.',
  'ref': 'DESIGN.md 4 C04', 'note': 'Modelled, not verified: lexer.rs (new, with_filter, set_filter, buffer_next, next, peek, iter_with_spans, span queries) and the harness scanners. Fuel = characters + 1 is proved sufficient (stream_fuel).',
  'technique': 'Rocq proof (refinement of the buffered lexer to the sequential scan, induction over the scan) + correspondence'},
 'C05': {
  'text': 'Machine-checked, on the same refinement: peek (hence the declining cases of next_if/next_if_eq and all span queries) and start_sublex/into_sublexer leave what the lexer will deliver (the kept entries of the remaining sequential scan) unchanged; next delivers exactly its head with the span the scanner matched and the sequential scanner state; set_filter re-filters what is still to come; delivered entries are entries of the ONE sequential scan. Clone independence holds by construction in the value model and is exercised against the real derived Clone by the correspondence run (clones that run ahead, change filters, are drained). Recorded finding (model-level witness C05_eager_skip_refuted): a filter change after an eager skip cannot re-deliver the skipped tokens.',
  'ref': 'DESIGN.md 4 C05', 'note': 'Modelled, not verified: lexer.rs. Partial: next_if, next_if_eq, advance_to, advance_up_to are compositions of peek/next in the model (transcribed) and are covered by correspondence with random and exhaustive length-3 histories, not by separate theorems. Known finding C05-filter-change-after-eager-skip listed in KNOWN_FINDINGS.json.',
  'technique': 'Rocq proof (simulation of lexer operations on the abstract stream) + correspondence with an advance-only reference'},
 'C15': {
  'text': 'Machine-checked theorems over ALL finite operation trees (induction over the tree): the events of a tree are exactly those of its send/apply leaves, each produced in the context determined by the path to that leaf alone (siblings, clones and forks do not interfere); an error sent or applied at the end of a path carries exactly the transforms active on that path (pushes not made under a lock, none before a raw), innermost first, each once; pushes onto a locked context are ignored. Contexts are modelled as values; that the real Rc-shared cells behave like values is what the correspondence run checks: the extracted model and the real Context/raw/unrecoverable/send_error/apply_context are run on thousands of seeded random trees and an exhaustive wrapper family, with tagging transforms, and an independent python reading of the property re-checks the implementation\'s events.',
  'ref': 'DESIGN.md 4 C15', 'note': 'Modelled, not verified: context.rs, result.rs apply_context, control.rs raw/unrecoverable. Value model of contexts (no store): sound because after the repair no library code mutates a shared cell; take_*/replace_* by user code are outside the model.',
  'technique': 'Rocq proof (induction over operation trees, path-based spec) + extracted-model/implementation correspondence'},
 'C17': {
  'text': 'Machine-checked theorems (closed under the global context) that enclose/intersect/union/minus/contains/intersects/adjacent of the Gallina model of span.rs are byte-interval algebra for ANY four positions of a chain, and that the canonical positions of any text form a chain (unbounded in text, positions, metrics); plus a correspondence run that executes the extracted model and the real Span code on every pair of spans of every small text and diffs all results, with an independent python byte-set oracle on the implementation\'s answers.',
  'ref': 'DESIGN.md 4 C17', 'note': 'Modelled, not verified: span.rs Span/Few operations. Correspondence exhaustive over texts up to the tier bound.',
  'technique': 'Rocq proof (case analysis over a position chain) + extracted-model/implementation correspondence'},
 'C18': {
  'text': 'Machine-checked theorems, for every unit list (text), every line ending (LF/CR/CRLF), tab width >= 1 and every start offset: widen_to_line of a canonical span returns exactly the span from the nearest line start at or before its start to the nearest line end at or after its end (with those indices characterised declaratively); split_lines yields exactly the declaratively defined pieces - in order, one per line touched, each within one line and free of terminators, their texts re-joining with the line ending to the span\'s text; len() before every next() and after exhaustion is the number of pieces still to come (L, L-1, ..., 0, 0), without panic. Correspondence: extracted model vs. real Span/SplitLines on every canonical span of every text up to the tier bound, len() sampled around every next(); a python oracle computes the expected partition independently.',
  'ref': 'DESIGN.md 4 C18', 'note': 'Modelled, not verified: span.rs widen_to_line/split_lines/SplitLines, source.rs line wrappers, metrics.rs. Hypotheses: tab width >= 1, characters of 1..4 bytes, span endpoints canonical.',
  'technique': 'Rocq proof (induction over the unit list / iterator states) + extracted-model/implementation correspondence'},
 'C20': {
  'text': 'Machine-checked theorems for a source with ANY start position: clipped() of a canonical span yields exactly the parent\'s bytes under the span with the span\'s start as start position; the positions a window reports are the parent\'s positions (gpos_window); start/end/full_span are those of the span; next/previous/line_start/line_end/next_line_start/previous_line_end/is_line_break at every position inside return the neighbouring / line-bounding positions of the window\'s own units, which are the parent\'s clamped to the window (min/max lemmas); widen/split (C18 theorems) hold for any start position. Owned vs. borrowed copies are identical values in the model; the real to_owned()/borrow() round trip is compared by the harness on every window.',
  'ref': 'DESIGN.md 4 C20', 'note': 'Modelled, not verified: source.rs (SourceText with offset, clipped, every wrapper), position.rs with_byte_offset. Page::shifted/shift are no longer used by the library after the end_position repair and are not modelled. Owned/borrowed equality is by correspondence only.',
  'technique': 'Rocq proof (positions measured from an arbitrary start position; window = sub-list of units) + correspondence'},
 'C19': {
  'text': 'Machine-checked theorems: for every text, line-ending style, tab width >= 1 and every canonical base, next/previous are mutual inverses, line_start/line_end/next_line_start/previous_line_end/is_line_break return the canonical positions of the declaratively defined line boundaries, start/end measurement return the first/last canonical position, position_after_str returns Some(canonical position after the match) exactly when the pattern is the text of whole units at the base and None otherwise, and the predicate advances are characterised likewise; every result is Ok, i.e. no panic or divergence (by induction over the unit list; no bound on the text). The model is tied to metrics.rs by running both on every canonical base of exhaustive small and random longer texts; a python re-implementation of the specification re-checks the implementation\'s answers.',
  'ref': 'DESIGN.md 4 C19', 'note': 'Modelled, not verified: metrics.rs (every public fn of ColumnMetrics) and the zero-offset SourceText wrappers. unicode-width is an oracle (table compared at start-up). Hypothesis of every theorem: tab width >= 1, characters of 1..4 bytes.',
  'technique': 'Rocq proof (induction over the unit reading of a text, refinement to a declarative canonical position) + correspondence'},
}
def main():
    props = [json.loads(l) for l in open(os.path.join(HERE, 'properties.jsonl'))]
    checks = []
    for pid in sorted(CLAIMS):
        c = CLAIMS[pid]
        checks.append({'property_id': pid, 'quick_cmd': './check %s --tier quick' % pid,
                       'thorough_cmd': './check %s --tier thorough' % pid,
                       'evidence_file': 'evidence/%s.json' % pid, 'replay_cmd_template': './check --replay {path}',
                       'engine': 'rocq-correspondence',
                       'level_claimed': {'category': 'proof', 'text': c['text'], 'design_ref': c['ref']},
                       'level_note': COMMON_NOTE + c['note'], 'technique': c['technique']})
    m = {'version': 1, 'setup_cmd': './setup.sh',
         'hooks': {'guard': 'tephra_verif',
                   'enable': 'no hooks are needed: every observation point is public API (RUSTFLAGS="--cfg tephra_verif" is reserved)',
                   'baseline_off_cmd': 'cd /repo && cargo test --workspace --no-fail-fast --offline',
                   'source_commits': [], 'add_only': True},
         'engines': [{'name': 'rocq-correspondence', 'path': 'check', 'serves_properties': sorted(CLAIMS),
                      'kind_free_text': 'Rocq/Coq 8.16 theorems about a hand-written Gallina model + differential run of the extracted model against the Rust implementation'}],
         'checks': checks,
         'notes': 'Properties are added to checks as their model, theorems and correspondence harness land; see DESIGN.md.',
         'not_applicable': [{'property_id': p['id'], 'reason': 'not yet claimed: the machinery for this property is still being built (DESIGN.md section 7 gives the order of work); the technique applies'} for p in props if p['id'] not in CLAIMS]}
    json.dump(m, open(os.path.join(HERE, 'MANIFEST.json'), 'w'), indent=1)
main()
