#!/bin/sh
# usage: tools_seed.sh PATCH PROP...   — apply a seeded change to /repo, run the quick checks, revert.
PATCH="$1"; shift
git -C /repo apply "$PATCH" || { echo "patch does not apply"; exit 2; }
for p in "$@"; do
  timeout 1500 ./check "$p" --tier quick 2>&1 | grep -E "VIOLATION|KNOWN|quick:" | cut -c1-260
done
git -C /repo checkout -- .
git checkout -q -- evidence 2>/dev/null    # evidence written on the patched tree is not kept
git -C /repo status --short | head -3
