#!/usr/bin/env python3
"""usage: tools_store_seed.py ID "detection text" PROP[,PROP...]  — copy /tmp/seed-ID into /verif/seeded/ID with meta.json,
using the confirmation line in /tmp/confirm_ID.log (written by the confirm procedure in the scratch worktree /tmp/wt-ID)."""
import json, os, shutil, glob, sys
pid, det, props = sys.argv[1], sys.argv[2], sys.argv[3].split(',')
src = '/tmp/seed-' + pid; dst = '/verif/seeded/' + pid
if os.path.exists(dst):
    n = 2
    while os.path.exists('%s-%d' % (dst, n)): n += 1
    dst = '%s-%d' % (dst, n)
os.makedirs(dst)
for f in glob.glob(src + '/*'):
    if os.path.basename(f) != 'meta.json' and os.path.isfile(f): shutil.copy(f, dst)
try: m = json.load(open(src + '/meta.json'))
except Exception: m = {}
conf = ''
try: conf = open('/tmp/confirm_%s.log' % pid).read().strip()[-700:]
except Exception: pass
m['breaks_property'] = pid
m['confirmed'] = ("in the scratch worktree /tmp/wt-%s (since removed): apply the patch, `cargo test --workspace --offline --lib` passes, "
                  "the demonstration fails with the patch, revert, the demonstration passes. Log: %s" % (pid, conf))
m['detection'] = det
m['how_to_rerun'] = "git -C /repo apply %s/patch.diff && %s ; git -C /repo checkout -- ." % (dst, ' ; '.join('./check %s --tier quick' % p for p in props))
json.dump(m, open(dst + '/meta.json', 'w'), indent=1)
print('stored', dst)
