//! `hrender`: drives the real `tephra-error` rendering code (`CodeDisplay`,
//! `SpanDisplay`, `Highlight`, `SourceError`) on the cases of a case file and
//! prints one canonical observation line per case.
//!
//! The input/output contract is /verif/harness/FORMAT-render.md (alphabet and
//! S-expression syntax: /verif/harness/FORMAT-span.md).

use std::io::{self, Write};
use std::panic::{catch_unwind, AssertUnwindSafe};

use tephra_error::error::SourceError;
use tephra_error::{CodeDisplay, Highlight, MessageType, SpanDisplay};
use tephra_span::{ColumnMetrics, LineEnding, Pos, SourceText, SourceTextRef, Span};
use unicode_width::UnicodeWidthChar;

////////////////////////////////////////////////////////////////////////////////
// Alphabet
////////////////////////////////////////////////////////////////////////////////

/// Symbol table, in the order of FORMAT-span.md.
const ALPHABET: &[(&str, char)] = &[
    ("a", 'a'),
    ("b", 'b'),
    ("c", 'c'),
    ("d", 'd'),
    ("x", 'x'),
    ("sp", ' '),
    ("TAB", '\t'),
    ("CR", '\r'),
    ("LF", '\n'),
    ("e2", '\u{00E9}'),
    ("w3", '\u{4E16}'),
    ("z3", '\u{200B}'),
    ("w4", '\u{1F600}'),
    ("z2", '\u{0301}'),
    ("bang", '!'),
    ("comma", ','),
    ("semi", ';'),
    ("hash", '#'),
    ("lp", '('),
    ("rp", ')'),
    ("lk", '['),
    ("rk", ']'),
    ("lc", '{'),
    ("rc", '}'),
];

fn sym_char(name: &str) -> Result<char, String> {
    ALPHABET
        .iter()
        .find(|(n, _)| *n == name)
        .map(|(_, c)| *c)
        .ok_or_else(|| format!("unknown symbol `{name}`"))
}

////////////////////////////////////////////////////////////////////////////////
// S-expressions
////////////////////////////////////////////////////////////////////////////////

#[derive(Debug)]
enum Sx {
    Atom(String),
    List(Vec<Sx>),
}

/// Parses a sequence of S-expressions: atoms and parenthesised lists; atoms
/// are separated by whitespace or parentheses.
fn parse_sexps(input: &str) -> Result<Vec<Sx>, String> {
    fn flush(atom: &mut String, stack: &mut [Vec<Sx>]) {
        if !atom.is_empty() {
            let a = std::mem::take(atom);
            stack.last_mut().expect("non-empty stack").push(Sx::Atom(a));
        }
    }

    let mut stack: Vec<Vec<Sx>> = vec![Vec::new()];
    let mut atom = String::new();
    for ch in input.chars() {
        match ch {
            '(' => {
                flush(&mut atom, &mut stack);
                stack.push(Vec::new());
            }
            ')' => {
                flush(&mut atom, &mut stack);
                if stack.len() < 2 {
                    return Err("unbalanced `)`".into());
                }
                let l = stack.pop().expect("non-empty stack");
                stack.last_mut().expect("non-empty stack").push(Sx::List(l));
            }
            c if c.is_whitespace() => flush(&mut atom, &mut stack),
            c => atom.push(c),
        }
    }
    flush(&mut atom, &mut stack);
    if stack.len() != 1 {
        return Err("unbalanced `(`".into());
    }
    Ok(stack.pop().expect("non-empty stack"))
}

fn as_atom(sx: &Sx) -> Result<&str, String> {
    match sx {
        Sx::Atom(a) => Ok(a),
        Sx::List(_) => Err("expected an atom, found a list".into()),
    }
}

fn as_list(sx: &Sx) -> Result<&[Sx], String> {
    match sx {
        Sx::List(l) => Ok(l),
        Sx::Atom(a) => Err(format!("expected a list, found atom `{a}`")),
    }
}

fn as_num(sx: &Sx) -> Result<usize, String> {
    let a = as_atom(sx)?;
    a.parse::<usize>().map_err(|_| format!("expected a decimal number, found `{a}`"))
}

fn as_flag(args: &[Sx], key: &str) -> Result<bool, String> {
    match args {
        [a] => match as_atom(a)? {
            "0" => Ok(false),
            "1" => Ok(true),
            other => Err(format!("expected `({key} 0|1)`, found `{other}`")),
        },
        _ => Err(format!("expected `({key} 0|1)`")),
    }
}

fn as_text(items: &[Sx]) -> Result<String, String> {
    items.iter().map(|s| sym_char(as_atom(s)?)).collect()
}

fn as_mtype(sx: &Sx) -> Result<MessageType, String> {
    Ok(match as_atom(sx)? {
        "info" => MessageType::Info,
        "error" => MessageType::Error,
        "warning" => MessageType::Warning,
        "note" => MessageType::Note,
        "help" => MessageType::Help,
        other => return Err(format!("unknown message type `{other}`")),
    })
}

/// `(span B L C B L C)`: the two endpoints, in the order given.
fn as_span(sx: &Sx) -> Result<(Pos, Pos), String> {
    match as_list(sx)? {
        [head, b0, l0, c0, b1, l1, c1] if as_atom(head)? == "span" => Ok((
            Pos::new(as_num(b0)?, as_num(l0)?, as_num(c0)?),
            Pos::new(as_num(b1)?, as_num(l1)?, as_num(c1)?),
        )),
        _ => Err("expected `(span B L C B L C)`".into()),
    }
}

////////////////////////////////////////////////////////////////////////////////
// Cases
////////////////////////////////////////////////////////////////////////////////

struct HlSpec {
    mtype: MessageType,
    msgid: String,
    start: Pos,
    end: Pos,
}

struct DisplaySpec {
    start: Pos,
    end: Pos,
    highlights: Vec<HlSpec>,
}

struct Case {
    id: String,
    le: LineEnding,
    tab: u8,
    named: bool,
    mtype: MessageType,
    code: bool,
    msg: String,
    text: String,
    displays: Vec<DisplaySpec>,
}

fn parse_hl(sx: &Sx) -> Result<HlSpec, String> {
    match as_list(sx)? {
        [head, t, msgid, span] if as_atom(head)? == "hl" => {
            let (start, end) = as_span(span)?;
            Ok(HlSpec {
                mtype: as_mtype(t)?,
                msgid: as_atom(msgid)?.to_string(),
                start,
                end,
            })
        }
        _ => Err("expected `(hl T MSGID (span B L C B L C))`".into()),
    }
}

fn parse_display(sx: &Sx) -> Result<DisplaySpec, String> {
    match as_list(sx)? {
        [head, span, hls @ ..] if as_atom(head)? == "display" => {
            let (start, end) = as_span(span)?;
            let highlights = hls.iter().map(parse_hl).collect::<Result<Vec<_>, _>>()?;
            Ok(DisplaySpec { start, end, highlights })
        }
        _ => Err("expected `(display (span B L C B L C) HL...)`".into()),
    }
}

fn parse_case(sx: &Sx) -> Result<Case, String> {
    let items = as_list(sx)?;
    let (head, id, fields) = match items {
        [head, id, fields @ ..] => (as_atom(head)?, as_atom(id)?, fields),
        _ => return Err("expected `(render-case ID FIELD...)`".into()),
    };
    if head != "render-case" {
        return Err(format!("expected `render-case`, found `{head}`"));
    }

    let mut le = None;
    let mut tab = None;
    let mut named = None;
    let mut mtype = None;
    let mut code = None;
    let mut msg = None;
    let mut text = None;
    let mut displays = None;

    fn set<T>(slot: &mut Option<T>, key: &str, v: T) -> Result<(), String> {
        if slot.is_some() {
            return Err(format!("duplicate field `{key}`"));
        }
        *slot = Some(v);
        Ok(())
    }

    for field in fields {
        let f = as_list(field)?;
        let (key, args) = match f {
            [key, args @ ..] => (as_atom(key)?, args),
            [] => return Err("empty field".into()),
        };
        match key {
            "le" => {
                let v = match args {
                    [a] => match as_atom(a)? {
                        "lf" => LineEnding::Lf,
                        "cr" => LineEnding::Cr,
                        "crlf" => LineEnding::CrLf,
                        other => return Err(format!("unknown line ending `{other}`")),
                    },
                    _ => return Err("expected `(le lf|cr|crlf)`".into()),
                };
                set(&mut le, key, v)?;
            }
            "tab" => {
                let v = match args {
                    [a] => u8::try_from(as_num(a)?)
                        .map_err(|_| "tab width does not fit in u8".to_string())?,
                    _ => return Err("expected `(tab N)`".into()),
                };
                set(&mut tab, key, v)?;
            }
            "named" => set(&mut named, key, as_flag(args, key)?)?,
            "code" => set(&mut code, key, as_flag(args, key)?)?,
            "mtype" => {
                let v = match args {
                    [a] => as_mtype(a)?,
                    _ => return Err("expected `(mtype T)`".into()),
                };
                set(&mut mtype, key, v)?;
            }
            "msg" => {
                let v = match args {
                    [a] => as_atom(a)?.to_string(),
                    _ => return Err("expected `(msg M)`".into()),
                };
                set(&mut msg, key, v)?;
            }
            "text" => set(&mut text, key, as_text(args)?)?,
            "displays" => {
                let v = args.iter().map(parse_display).collect::<Result<Vec<_>, _>>()?;
                set(&mut displays, key, v)?;
            }
            other => return Err(format!("unknown field `{other}`")),
        }
    }

    fn need<T>(slot: Option<T>, key: &str) -> Result<T, String> {
        slot.ok_or_else(|| format!("missing field `{key}`"))
    }

    Ok(Case {
        id: id.to_string(),
        le: need(le, "le")?,
        tab: need(tab, "tab")?,
        named: need(named, "named")?,
        mtype: need(mtype, "mtype")?,
        code: need(code, "code")?,
        msg: need(msg, "msg")?,
        text: need(text, "text")?,
        displays: need(displays, "displays")?,
    })
}

////////////////////////////////////////////////////////////////////////////////
// Library objects
////////////////////////////////////////////////////////////////////////////////

const PANIC: &str = "PANIC";

/// Runs one computation under `catch_unwind`.
fn guard<T>(call: impl FnOnce() -> T) -> Option<T> {
    catch_unwind(AssertUnwindSafe(call)).ok()
}

fn r_bool(b: bool) -> &'static str {
    if b {
        "T"
    } else {
        "F"
    }
}

/// The `SpanDisplay`s of the case, in order, each with its highlights in order.
fn span_displays(case: &Case, src: SourceTextRef<'_>) -> Vec<SpanDisplay> {
    case.displays
        .iter()
        .map(|d| {
            let mut sd = SpanDisplay::new(src, Span::enclosing(d.start, d.end));
            for hl in &d.highlights {
                sd = sd.with_highlight(
                    Highlight::new(Span::enclosing(hl.start, hl.end), format!("m{}", hl.msgid))
                        .with_message_type(hl.mtype),
                );
            }
            sd
        })
        .collect()
}

/// The direct path: a `CodeDisplay` with the given message type and code id.
fn code_display(
    case: &Case,
    src: SourceTextRef<'_>,
    mtype: MessageType,
    code: bool,
) -> CodeDisplay {
    let mut cd = CodeDisplay::new(format!("msg{}", case.msg))
        .with_message_type(mtype)
        .with_code_id(if code { Some("E01") } else { None });
    for sd in span_displays(case, src) {
        cd = cd.with_span_display(sd);
    }
    cd
}

/// `cd.clone().with_color(color)` written with `CodeDisplay::write(&mut String, src)`.
fn render(cd: &CodeDisplay, src: SourceTextRef<'_>, color: bool) -> String {
    let mut out = String::new();
    // Writing to a `String` cannot fail; a `fmt::Error` from the library would be
    // reported like the panic `format!` turns it into on the `SourceError` path.
    cd.clone()
        .with_color(color)
        .write(&mut out, src)
        .expect("a formatting error while writing to a String");
    out
}

/// The error path: `SourceError` (error type, no code id), colours off.
fn source_error<'t>(case: &Case, src: SourceTextRef<'t>) -> SourceError<&'t str> {
    let mut e = SourceError::new(src, format!("msg{}", case.msg)).with_color(false);
    for sd in span_displays(case, src) {
        e = e.with_span_display(sd);
    }
    e
}

/// Removes every ANSI escape sequence `ESC [ ... m`.
fn strip_ansi(s: &str) -> String {
    let mut out = String::with_capacity(s.len());
    let mut chars = s.chars().peekable();
    while let Some(c) = chars.next() {
        if c == '\u{1b}' && chars.peek() == Some(&'[') {
            let _ = chars.next();
            for d in chars.by_ref() {
                if d == 'm' {
                    break;
                }
            }
        } else {
            out.push(c);
        }
    }
    out
}

fn hex(s: &str) -> String {
    use std::fmt::Write as _;
    let mut out = String::with_capacity(s.len() * 2);
    for b in s.bytes() {
        write!(out, "{b:02x}").expect("writing to a String");
    }
    out
}

////////////////////////////////////////////////////////////////////////////////
// Driver
////////////////////////////////////////////////////////////////////////////////

fn run_case(case: &Case) -> String {
    let metrics = ColumnMetrics::new()
        .with_line_ending(case.le)
        .with_tab_width(case.tab);
    let text: &str = case.text.as_str();
    let src: SourceTextRef<'_> = {
        let s = SourceText::new(text).with_column_metrics(metrics);
        if case.named {
            s.with_name("src.txt")
        } else {
            s
        }
    };

    // 1. plain
    let plain: Option<String> =
        guard(|| render(&code_display(case, src, case.mtype, case.code), src, false));

    // 2. colour-eq
    let coloured: Option<String> =
        guard(|| render(&code_display(case, src, case.mtype, case.code), src, true));
    let colour_eq = match (&coloured, &plain) {
        (None, _) => PANIC,
        (Some(_), None) => r_bool(false),
        (Some(c), Some(p)) => r_bool(c.contains("\u{1b}[") && strip_ansi(c) == *p),
    };

    // 3. owned-eq
    let owned_eq = match guard(|| {
        let e = source_error(case, src);
        let borrowed = format!("{}", e);
        let owned = format!("{}", e.into_owned());
        // ... and with colours on (the owned copy keeps the colour setting)
        let ec = source_error(case, src).with_color(true);
        let borrowed_c = format!("{}", ec);
        let owned_c = format!("{}", ec.into_owned());
        borrowed == owned && borrowed_c == owned_c && borrowed_c.contains("\u{1b}[")
    }) {
        Some(b) => r_bool(b),
        None => PANIC,
    };

    // 4. owned-plain-eq
    let owned_plain_eq = match guard(|| {
        let e = source_error(case, src);
        let via_error = format!("{}", e);
        let direct = render(&code_display(case, src, MessageType::Error, false), src, false);
        via_error == direct
    }) {
        Some(b) => r_bool(b),
        None => PANIC,
    };

    let plain_hex = match &plain {
        Some(p) => hex(p),
        None => PANIC.to_string(),
    };

    let colour_hex = match &coloured {
        Some(c) => hex(c),
        None => PANIC.to_string(),
    };

    format!(
        "({} (plain {plain_hex}) (colour {colour_hex}) (colour-eq {colour_eq}) (owned-eq {owned_eq}) (owned-plain-eq {owned_plain_eq}))",
        case.id
    )
}

fn print_alphabet(out: &mut impl Write) -> io::Result<()> {
    for (name, c) in ALPHABET {
        writeln!(
            out,
            "(sym {} {} {} {})",
            name,
            *c as u32,
            c.len_utf8(),
            UnicodeWidthChar::width(*c).unwrap_or(0)
        )?;
        out.flush()?;
    }
    Ok(())
}

fn run_file(path: &str, from: usize, out: &mut impl Write) -> Result<(), String> {
    let input = std::fs::read_to_string(path).map_err(|e| format!("{path}: {e}"))?;
    let mut index = 0usize;
    for (lineno, line) in input.lines().enumerate() {
        if line.trim().is_empty() {
            continue;
        }
        let skip = index < from;
        index += 1;
        if skip {
            continue;
        }
        let at = |e: String| format!("{path}:{}: {e}", lineno + 1);
        let sexps = parse_sexps(line).map_err(at)?;
        let case = match sexps.as_slice() {
            [one] => parse_case(one).map_err(at)?,
            _ => return Err(at("expected exactly one case per line".into())),
        };
        let obs_line = run_case(&case);
        writeln!(out, "{obs_line}").map_err(|e| format!("stdout: {e}"))?;
        // A supervisor may kill the process on the next case: nothing may stay buffered.
        out.flush().map_err(|e| format!("stdout: {e}"))?;
    }
    Ok(())
}

const USAGE: &str = "usage: hrender CASEFILE [--from N] | hrender --alphabet";

fn main() {
    // Panics of the library under test are observations, not diagnostics.
    std::panic::set_hook(Box::new(|_| {}));
    // Escape codes must really be produced, whatever stdout is and whatever NO_COLOR says.
    colored::control::set_override(true);

    let args: Vec<String> = std::env::args().skip(1).collect();
    let stdout = io::stdout();
    let mut out = stdout.lock();

    let mut path: Option<String> = None;
    let mut from = 0usize;
    let mut alphabet = false;
    let mut bad = false;
    let mut it = args.iter();
    while let Some(a) = it.next() {
        match a.as_str() {
            "--alphabet" => alphabet = true,
            "--from" => match it.next().and_then(|n| n.parse::<usize>().ok()) {
                Some(n) => from = n,
                None => bad = true,
            },
            p if path.is_none() && !p.starts_with("--") => path = Some(p.to_string()),
            _ => bad = true,
        }
    }

    let result = if bad {
        Err(USAGE.to_string())
    } else if alphabet && path.is_none() {
        print_alphabet(&mut out).map_err(|e| format!("stdout: {e}"))
    } else if let (Some(p), false) = (path.as_ref(), alphabet) {
        run_file(p, from, &mut out)
    } else {
        Err(USAGE.to_string())
    };

    let flushed = out.flush();
    if let Err(e) = result {
        eprintln!("hrender: {e}");
        std::process::exit(1);
    }
    if let Err(e) = flushed {
        eprintln!("hrender: stdout: {e}");
        std::process::exit(1);
    }
}
