//! `hspan`: drives the real `tephra-span` library on the cases of a case file
//! and prints one canonical observation line per case.
//!
//! The input/output contract is /verif/harness/FORMAT-span.md.

use std::io::{self, BufWriter, Write};
use std::panic::{catch_unwind, AssertUnwindSafe};

use few::Few;
use tephra_span::{ColumnMetrics, LineEnding, Pos, SourceText, SourceTextRef, Span};
use unicode_width::UnicodeWidthChar;

////////////////////////////////////////////////////////////////////////////////
// Alphabet
////////////////////////////////////////////////////////////////////////////////

/// Symbol table, in the order of FORMAT-span.md.
const ALPHABET: &[(&str, char)] = &[
    ("a", 'a'),
    ("b", 'b'),
    ("c", 'c'),
    ("d", 'd'),
    ("x", 'x'),
    ("sp", ' '),
    ("TAB", '\t'),
    ("CR", '\r'),
    ("LF", '\n'),
    ("e2", '\u{00E9}'),
    ("w3", '\u{4E16}'),
    ("z3", '\u{200B}'),
    ("w4", '\u{1F600}'),
    ("z2", '\u{0301}'),
    ("bang", '!'),
    ("comma", ','),
    ("semi", ';'),
    ("hash", '#'),
    ("lp", '('),
    ("rp", ')'),
    ("lk", '['),
    ("rk", ']'),
    ("lc", '{'),
    ("rc", '}'),
];

fn sym_char(name: &str) -> Result<char, String> {
    ALPHABET
        .iter()
        .find(|(n, _)| *n == name)
        .map(|(_, c)| *c)
        .ok_or_else(|| format!("unknown symbol `{name}`"))
}

fn class_alpha(c: char) -> bool {
    matches!(c, 'a' | 'b' | 'c' | 'd' | 'x' | '\u{00E9}' | '\u{4E16}' | '\u{1F600}')
}
fn class_space(c: char) -> bool {
    matches!(c, ' ' | '\t')
}
fn class_any(_: char) -> bool {
    true
}
fn class_nl(c: char) -> bool {
    matches!(c, '\r' | '\n')
}
/// classes that tell the two characters of a CRLF line ending apart
fn class_cr(c: char) -> bool {
    c == '\r'
}
fn class_notlf(c: char) -> bool {
    c != '\n'
}
fn class_wide(c: char) -> bool {
    matches!(c, '\u{4E16}' | '\u{1F600}' | '\u{200B}' | '\u{0301}')
}

type Class = fn(char) -> bool;

fn class_of(name: &str) -> Result<Class, String> {
    Ok(match name {
        "alpha" => class_alpha,
        "space" => class_space,
        "any" => class_any,
        "nl" => class_nl,
        "wide" => class_wide,
        "cr" => class_cr,
        "notlf" => class_notlf,
        _ => return Err(format!("unknown class `{name}`")),
    })
}

////////////////////////////////////////////////////////////////////////////////
// S-expressions
////////////////////////////////////////////////////////////////////////////////

#[derive(Debug)]
enum Sx {
    Atom(String),
    List(Vec<Sx>),
}

/// Parses a sequence of S-expressions: atoms and parenthesised lists; atoms
/// are separated by whitespace or parentheses.
fn parse_sexps(input: &str) -> Result<Vec<Sx>, String> {
    fn flush(atom: &mut String, stack: &mut [Vec<Sx>]) {
        if !atom.is_empty() {
            let a = std::mem::take(atom);
            stack.last_mut().expect("non-empty stack").push(Sx::Atom(a));
        }
    }

    let mut stack: Vec<Vec<Sx>> = vec![Vec::new()];
    let mut atom = String::new();
    for ch in input.chars() {
        match ch {
            '(' => {
                flush(&mut atom, &mut stack);
                stack.push(Vec::new());
            }
            ')' => {
                flush(&mut atom, &mut stack);
                if stack.len() < 2 {
                    return Err("unbalanced `)`".into());
                }
                let l = stack.pop().expect("non-empty stack");
                stack.last_mut().expect("non-empty stack").push(Sx::List(l));
            }
            c if c.is_whitespace() => flush(&mut atom, &mut stack),
            c => atom.push(c),
        }
    }
    flush(&mut atom, &mut stack);
    if stack.len() != 1 {
        return Err("unbalanced `(`".into());
    }
    Ok(stack.pop().expect("non-empty stack"))
}

fn as_atom(sx: &Sx) -> Result<&str, String> {
    match sx {
        Sx::Atom(a) => Ok(a),
        Sx::List(_) => Err("expected an atom, found a list".into()),
    }
}

fn as_list(sx: &Sx) -> Result<&[Sx], String> {
    match sx {
        Sx::List(l) => Ok(l),
        Sx::Atom(a) => Err(format!("expected a list, found atom `{a}`")),
    }
}

fn as_num(sx: &Sx) -> Result<usize, String> {
    let a = as_atom(sx)?;
    a.parse::<usize>().map_err(|_| format!("expected a decimal number, found `{a}`"))
}

fn as_triple(items: &[Sx]) -> Result<(usize, usize, usize), String> {
    match items {
        [b, l, c] => Ok((as_num(b)?, as_num(l)?, as_num(c)?)),
        _ => Err("expected three numbers `B L C`".into()),
    }
}

fn as_text(items: &[Sx]) -> Result<String, String> {
    items.iter().map(|s| sym_char(as_atom(s)?)).collect()
}

////////////////////////////////////////////////////////////////////////////////
// Cases
////////////////////////////////////////////////////////////////////////////////

#[derive(Debug, Clone, Copy, PartialEq, Eq)]
enum Op {
    Nav,
    Pat,
    Cls,
    Alg,
    Lines,
    Win,
}

struct Case {
    id: String,
    le: LineEnding,
    tab: u8,
    off: Pos,
    text: String,
    bases: Vec<Pos>,
    pats: Vec<String>,
    classes: Vec<Class>,
    ops: Vec<Op>,
}

fn parse_case(sx: &Sx) -> Result<Case, String> {
    let items = as_list(sx)?;
    let (head, id, fields) = match items {
        [head, id, fields @ ..] => (as_atom(head)?, as_atom(id)?, fields),
        _ => return Err("expected `(span-case ID FIELD...)`".into()),
    };
    if head != "span-case" {
        return Err(format!("expected `span-case`, found `{head}`"));
    }

    let mut le = None;
    let mut tab = None;
    let mut off = None;
    let mut text = None;
    let mut bases = None;
    let mut pats = None;
    let mut classes = None;
    let mut ops = None;

    fn set<T>(slot: &mut Option<T>, key: &str, v: T) -> Result<(), String> {
        if slot.is_some() {
            return Err(format!("duplicate field `{key}`"));
        }
        *slot = Some(v);
        Ok(())
    }

    for field in fields {
        let f = as_list(field)?;
        let (key, args) = match f {
            [key, args @ ..] => (as_atom(key)?, args),
            [] => return Err("empty field".into()),
        };
        match key {
            "le" => {
                let v = match args {
                    [a] => match as_atom(a)? {
                        "lf" => LineEnding::Lf,
                        "cr" => LineEnding::Cr,
                        "crlf" => LineEnding::CrLf,
                        other => return Err(format!("unknown line ending `{other}`")),
                    },
                    _ => return Err("expected `(le lf|cr|crlf)`".into()),
                };
                set(&mut le, key, v)?;
            }
            "tab" => {
                let v = match args {
                    [a] => u8::try_from(as_num(a)?)
                        .map_err(|_| "tab width does not fit in u8".to_string())?,
                    _ => return Err("expected `(tab N)`".into()),
                };
                set(&mut tab, key, v)?;
            }
            "off" => {
                let (b, l, c) = as_triple(args)?;
                set(&mut off, key, Pos::new(b, l, c))?;
            }
            "text" => set(&mut text, key, as_text(args)?)?,
            "bases" => {
                let v = args
                    .iter()
                    .map(|a| as_triple(as_list(a)?).map(|(b, l, c)| Pos::new(b, l, c)))
                    .collect::<Result<Vec<_>, _>>()?;
                set(&mut bases, key, v)?;
            }
            "pats" => {
                let v = args
                    .iter()
                    .map(|a| as_text(as_list(a)?))
                    .collect::<Result<Vec<_>, _>>()?;
                set(&mut pats, key, v)?;
            }
            "classes" => {
                let v = args
                    .iter()
                    .map(|a| class_of(as_atom(a)?))
                    .collect::<Result<Vec<_>, _>>()?;
                set(&mut classes, key, v)?;
            }
            "ops" => {
                let v = args
                    .iter()
                    .map(|a| {
                        Ok(match as_atom(a)? {
                            "nav" => Op::Nav,
                            "pat" => Op::Pat,
                            "cls" => Op::Cls,
                            "alg" => Op::Alg,
                            "lines" => Op::Lines,
                            "win" => Op::Win,
                            other => return Err(format!("unknown op `{other}`")),
                        })
                    })
                    .collect::<Result<Vec<_>, String>>()?;
                set(&mut ops, key, v)?;
            }
            other => return Err(format!("unknown field `{other}`")),
        }
    }

    fn need<T>(slot: Option<T>, key: &str) -> Result<T, String> {
        slot.ok_or_else(|| format!("missing field `{key}`"))
    }

    Ok(Case {
        id: id.to_string(),
        le: need(le, "le")?,
        tab: need(tab, "tab")?,
        off: need(off, "off")?,
        text: need(text, "text")?,
        bases: need(bases, "bases")?,
        pats: need(pats, "pats")?,
        classes: need(classes, "classes")?,
        ops: need(ops, "ops")?,
    })
}

////////////////////////////////////////////////////////////////////////////////
// Value rendering
////////////////////////////////////////////////////////////////////////////////

const PANIC: &str = "PANIC";

fn r_pos(p: Pos) -> String {
    format!("{}:{}:{}", p.byte, p.page.line, p.page.column)
}

fn r_opos(p: Option<Pos>) -> String {
    p.map_or_else(|| "-".to_string(), r_pos)
}

fn r_span(s: Span) -> String {
    format!("{}~{}", r_pos(s.start()), r_pos(s.end()))
}

fn r_ospan(s: Option<Span>) -> String {
    s.map_or_else(|| "-".to_string(), r_span)
}

fn r_few(f: Few<Span>) -> String {
    match f {
        Few::Zero => "(few)".to_string(),
        Few::One(a) => format!("(few {})", r_span(a)),
        Few::Two(a, b) => format!("(few {} {})", r_span(a), r_span(b)),
    }
}

fn r_bool(b: bool) -> String {
    if b { "T" } else { "F" }.to_string()
}

/// Runs one library call under `catch_unwind`.
fn guard<T>(call: impl FnOnce() -> T) -> Option<T> {
    catch_unwind(AssertUnwindSafe(call)).ok()
}

/// Runs one library call under `catch_unwind` and renders its value (or `PANIC`).
fn obs<T>(call: impl FnOnce() -> T, render: impl FnOnce(T) -> String) -> String {
    match guard(call) {
        Some(v) => render(v),
        None => PANIC.to_string(),
    }
}

/// The `ColumnMetrics` side of a case with zero offset: the raw text and the metrics.
type Cm<'a> = Option<(&'a str, ColumnMetrics)>;

/// Observes a function that exists both on `ColumnMetrics` and as a `SourceText` wrapper.
///
/// With `cm` present: the ColumnMetrics value followed by `=` if the wrapper's
/// observation is the same, or `!` and the wrapper's observation otherwise.
/// Without: the wrapper's observation, bare.
fn dual<T>(
    cm: Cm<'_>,
    f_cm: impl FnOnce(&str, &ColumnMetrics) -> T,
    f_st: impl FnOnce() -> T,
    render: fn(T) -> String,
) -> String {
    match cm {
        Some((text, m)) => {
            let c = obs(|| f_cm(text, &m), render);
            let s = obs(f_st, render);
            if c == s {
                format!("{c}=")
            } else {
                format!("{c}!{s}")
            }
        }
        None => obs(f_st, render),
    }
}

////////////////////////////////////////////////////////////////////////////////
// Groups
////////////////////////////////////////////////////////////////////////////////

/// All `Span::enclosing(P[i], P[j])` for i <= j in lexicographic (i, j) order.
fn spans_of(bases: &[Pos]) -> Vec<Span> {
    let mut spans = Vec::with_capacity(bases.len() * (bases.len() + 1) / 2);
    for i in 0..bases.len() {
        for j in i..bases.len() {
            // `Span::enclosing` is a swap and two struct literals: it cannot panic.
            spans.push(Span::enclosing(bases[i], bases[j]));
        }
    }
    spans
}

fn nav_group(src: SourceTextRef<'_>, cm: Cm<'_>, bases: &[Pos]) -> String {
    let mut out = String::from("(nav");
    for &base in bases {
        let next = dual(cm, |t, m| m.next_position(t, base), || src.next_position(base), r_opos);
        let prev = dual(
            cm,
            |t, m| m.previous_position(t, base),
            || src.previous_position(base),
            r_opos,
        );
        let islb = match cm {
            Some((t, m)) => obs(|| m.is_line_break(t, base.byte), r_bool),
            None => obs(|| src.is_line_break(base.byte), r_bool),
        };
        let lend = dual(
            cm,
            |t, m| m.line_end_position(t, base),
            || src.line_end_position(base),
            r_pos,
        );
        let lstart = dual(
            cm,
            |t, m| m.line_start_position(t, base),
            || src.line_start_position(base),
            r_pos,
        );
        let plend = dual(
            cm,
            |t, m| m.previous_line_end_position(t, base),
            || src.previous_line_end_position(base),
            r_opos,
        );
        let nlstart = dual(
            cm,
            |t, m| m.next_line_start_position(t, base),
            || src.next_line_start_position(base),
            r_opos,
        );
        let (startpos, endpos) = match cm {
            Some((t, m)) => (
                obs(|| m.start_position(t, base), r_pos),
                obs(|| m.end_position(t, base), r_pos),
            ),
            None => (".".to_string(), ".".to_string()),
        };
        out.push_str(&format!(
            " ({} {next} {prev} {islb} {lend} {lstart} {plend} {nlstart} {startpos} {endpos})",
            r_pos(base)
        ));
    }
    out.push(')');
    out
}

fn pat_group(src: SourceTextRef<'_>, cm: Cm<'_>, bases: &[Pos], pats: &[String]) -> String {
    let mut out = String::from("(pat");
    for &base in bases {
        out.push_str(" (");
        out.push_str(&r_pos(base));
        for pat in pats {
            let v = dual(
                cm,
                |t, m| m.position_after_str(t, base, pat),
                || src.position_after_str(base, pat),
                r_opos,
            );
            out.push(' ');
            out.push_str(&v);
        }
        out.push(')');
    }
    out.push(')');
    out
}

fn cls_group(src: SourceTextRef<'_>, cm: Cm<'_>, bases: &[Pos], classes: &[Class]) -> String {
    let mut out = String::from("(cls");
    for &base in bases {
        out.push_str(" (");
        out.push_str(&r_pos(base));
        for &class in classes {
            let v = dual(
                cm,
                |t, m| m.position_after_chars_matching(t, base, class),
                || src.position_after_chars_matching(base, class),
                r_opos,
            );
            let w = dual(
                cm,
                |t, m| m.next_position_after_chars_matching(t, base, class),
                || src.next_position_after_chars_matching(base, class),
                r_opos,
            );
            out.push(' ');
            out.push_str(&v);
            out.push(' ');
            out.push_str(&w);
        }
        out.push(')');
    }
    out.push(')');
    out
}

fn alg_group(bases: &[Pos]) -> String {
    let spans = spans_of(bases);
    let mut out = String::from("(alg");
    for &a in &spans {
        for &b in &spans {
            let enclose = obs(|| a.enclose(b), r_span);
            let union = obs(|| a.union(b), r_few);
            let intersect = obs(|| a.intersect(b), r_ospan);
            let minus = obs(|| a.minus(b), r_few);
            let intersects = obs(|| a.intersects(b), r_bool);
            let adjacent = obs(|| a.adjacent(b), r_bool);
            out.push_str(&format!(
                " ({} {} {enclose} {union} {intersect} {minus} {intersects} {adjacent})",
                r_span(a),
                r_span(b)
            ));
        }
    }
    for &a in &spans {
        out.push_str(" (cont ");
        out.push_str(&r_span(a));
        for p in bases {
            out.push(' ');
            out.push_str(&obs(|| a.contains(p), r_bool));
        }
        out.push(')');
    }
    out.push(')');
    out
}

/// Maximum number of pieces pulled out of a `SplitLines` iterator.
const MAX_PIECES: usize = 64;

/// The length an `ExactSizeIterator` reports: `len()`, which must agree with `size_hint()` (`N`, else `N!LO..HI`).
fn r_len((n, hint): (usize, (usize, Option<usize>))) -> String {
    if hint == (n, Some(n)) {
        n.to_string()
    } else {
        format!("{}!{}..{}", n, hint.0, hint.1.map_or("-".to_string(), |h| h.to_string()))
    }
}

fn lines_group(src: SourceTextRef<'_>, bases: &[Pos]) -> String {
    let mut out = String::from("(lines");
    for s in spans_of(bases) {
        let widen = obs(|| s.widen_to_line(src), r_span);

        let mut pieces: Vec<String> = Vec::new();
        let mut lens: Vec<String> = Vec::new();
        // `split_lines` only copies the endpoints and the source; guarded anyway.
        match guard(|| s.split_lines(src)) {
            None => pieces.push(PANIC.to_string()),
            Some(mut it) => {
                while pieces.len() < MAX_PIECES {
                    lens.push(obs(|| (ExactSizeIterator::len(&it), it.size_hint()), r_len));
                    match guard(|| it.next()) {
                        None => {
                            pieces.push(PANIC.to_string());
                            break;
                        }
                        Some(Some(piece)) => pieces.push(r_span(piece)),
                        Some(None) => {
                            lens.push(obs(|| (ExactSizeIterator::len(&it), it.size_hint()), r_len));
                            break;
                        }
                    }
                }
            }
        }

        out.push_str(&format!(" ({} {widen} (split", r_span(s)));
        for p in &pieces {
            out.push(' ');
            out.push_str(p);
        }
        out.push_str(") (lens");
        for n in &lens {
            out.push(' ');
            out.push_str(n);
        }
        out.push_str("))");
    }
    out.push(')');
    out
}

fn win_group(
    src: &'static SourceTextRef<'static>,
    text: &str,
    off: Pos,
    bases: &[Pos],
) -> String {
    let mut out = String::from("(win");
    for win in spans_of(bases) {
        let w_start = win.start();
        let w_end = win.end();

        let w: SourceTextRef<'static> = match guard(|| src.clipped(win)) {
            Some(w) => w,
            None => {
                out.push_str(&format!(" ({} {PANIC})", r_span(win)));
                continue;
            }
        };

        // TEXTBYTES
        let w_str = w.as_str();
        let textbytes = match w_start.byte.checked_sub(off.byte) {
            Some(s) if text.get(s..s + w_str.len()) == Some(w_str) => {
                format!("{}..{}", s, s + w_str.len())
            }
            _ => "?".to_string(),
        };

        let start = obs(|| w.start_position(), r_pos);
        let end = obs(|| w.end_position(), r_pos);
        let full = obs(|| w.full_span(), r_span);

        // Bases inside the window (by byte), and the groups computed with the window.
        let inner: Vec<Pos> = bases
            .iter()
            .copied()
            .filter(|p| w_start.byte <= p.byte && p.byte <= w_end.byte)
            .collect();
        let nav = nav_group(w, None, &inner);
        let lines = lines_group(w, &inner);

        // Owned copy: same observable fields, and the same nav results through `borrow()`.
        let owned = match guard(|| SourceText::to_owned(&w)) {
            None => false,
            Some(o) => {
                let same_str = guard(|| o.as_str() == w.as_str()) == Some(true);
                let same_name = guard(|| o.name() == w.name() && w.name() == src.name()) == Some(true);
                let same_metrics =
                    guard(|| o.column_metrics() == w.column_metrics()) == Some(true);
                let same_start = obs(|| o.start_position(), r_pos) == start;
                let same_end = obs(|| o.end_position(), r_pos) == end;
                let same_nav = match guard(|| o.borrow()) {
                    Some(ob) => nav_group(ob, None, &inner) == nav,
                    None => false,
                };
                same_str && same_name && same_metrics && same_start && same_end && same_nav
            }
        };

        out.push_str(&format!(
            " ({} {textbytes} {start} {end} {full} {} {nav} {lines})",
            r_span(win),
            r_bool(owned)
        ));
    }
    out.push(')');
    out
}

////////////////////////////////////////////////////////////////////////////////
// Driver
////////////////////////////////////////////////////////////////////////////////

fn run_case(case: &Case) -> String {
    let metrics = ColumnMetrics::new()
        .with_line_ending(case.le)
        .with_tab_width(case.tab);

    // Leaked per case: `SourceText::clipped` borrows the source for the text lifetime.
    let text: &'static str = Box::leak(case.text.clone().into_boxed_str());
    let zero_off = case.off == Pos::ZERO;
    let src: SourceTextRef<'static> = if zero_off {
        SourceText::new(text).with_column_metrics(metrics)
    } else {
        SourceText::new(text)
            .with_column_metrics(metrics)
            .with_start_position(case.off)
    };
    // Every other case names its source: the name must survive `clipped`, `to_owned` and `borrow` (it is not printed).
    let src = if case.text.len() % 2 == 1 { src.with_name("src.txt") } else { src };
    let src_ref: &'static SourceTextRef<'static> = Box::leak(Box::new(src));
    let cm: Cm<'_> = if zero_off { Some((text, metrics)) } else { None };

    let mut out = format!("({}", case.id);
    for op in &case.ops {
        out.push(' ');
        let group = match op {
            Op::Nav => nav_group(src, cm, &case.bases),
            Op::Pat => pat_group(src, cm, &case.bases, &case.pats),
            Op::Cls => cls_group(src, cm, &case.bases, &case.classes),
            Op::Alg => alg_group(&case.bases),
            Op::Lines => lines_group(src, &case.bases),
            Op::Win => win_group(src_ref, text, case.off, &case.bases),
        };
        out.push_str(&group);
    }
    out.push(')');
    out
}

fn print_alphabet(out: &mut impl Write) -> io::Result<()> {
    for (name, c) in ALPHABET {
        writeln!(
            out,
            "(sym {} {} {} {})",
            name,
            *c as u32,
            c.len_utf8(),
            UnicodeWidthChar::width(*c).unwrap_or(0)
        )?;
    }
    Ok(())
}

fn run_file(path: &str, out: &mut impl Write) -> Result<(), String> {
    let input = std::fs::read_to_string(path).map_err(|e| format!("{path}: {e}"))?;
    for (lineno, line) in input.lines().enumerate() {
        if line.trim().is_empty() {
            continue;
        }
        let at = |e: String| format!("{path}:{}: {e}", lineno + 1);
        let sexps = parse_sexps(line).map_err(at)?;
        let case = match sexps.as_slice() {
            [one] => parse_case(one).map_err(at)?,
            _ => return Err(at("expected exactly one case per line".into())),
        };
        let obs_line = run_case(&case);
        writeln!(out, "{obs_line}").map_err(|e| format!("stdout: {e}"))?;
    }
    Ok(())
}

fn main() {
    // Panics of the library under test are observations, not diagnostics.
    std::panic::set_hook(Box::new(|_| {}));

    let args: Vec<String> = std::env::args().collect();
    let stdout = io::stdout();
    let mut out = BufWriter::new(stdout.lock());

    let result = match args.as_slice() {
        [_, flag] if flag == "--alphabet" => {
            print_alphabet(&mut out).map_err(|e| format!("stdout: {e}"))
        }
        [_, path] => run_file(path, &mut out),
        _ => Err("usage: hspan CASEFILE | hspan --alphabet".to_string()),
    };

    let flushed = out.flush();
    if let Err(e) = result {
        eprintln!("hspan: {e}");
        std::process::exit(1);
    }
    if let Err(e) = flushed {
        eprintln!("hspan: stdout: {e}");
        std::process::exit(1);
    }
}
