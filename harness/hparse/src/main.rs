//! `hparse`: drives the real `tephra` lexer / context and the real
//! `tephra-combinator` combinators on the cases of a case file and prints one
//! canonical observation line per case.
//!
//! The input/output contract is /verif/harness/FORMAT-parse.md (alphabet and
//! value syntax: /verif/harness/FORMAT-span.md).

use std::cell::{Cell, RefCell};
use std::fmt;
use std::io::{self, Write};
use std::panic::{catch_unwind, AssertUnwindSafe};
use std::rc::Rc;

use tephra::error::{
    Expected, Found, MatchBracketError, ParseBoundaryError, RecoverError, RepeatCountError,
    UnexpectedTokenError, UnrecognizedTokenError,
};
use tephra::{
    recover_after, recover_after_any, recover_before, recover_before_any, ColumnMetrics, Context,
    ErrorSink, ErrorTransform, Lexer, LineEnding, ParseError, ParseResult, ParseResultExt as _,
    Pos, Recover, Scanner, SourceText, SourceTextRef, Span, Spanned, Success,
};
use tephra_combinator as tc;
use unicode_width::UnicodeWidthChar;

////////////////////////////////////////////////////////////////////////////////
// Alphabet
////////////////////////////////////////////////////////////////////////////////

/// Symbol table, in the order of FORMAT-span.md.
const ALPHABET: &[(&str, char)] = &[
    ("a", 'a'),
    ("b", 'b'),
    ("c", 'c'),
    ("d", 'd'),
    ("x", 'x'),
    ("sp", ' '),
    ("TAB", '\t'),
    ("CR", '\r'),
    ("LF", '\n'),
    ("e2", '\u{00E9}'),
    ("w3", '\u{4E16}'),
    ("z3", '\u{200B}'),
    ("w4", '\u{1F600}'),
    ("z2", '\u{0301}'),
    ("bang", '!'),
    ("comma", ','),
    ("semi", ';'),
    ("hash", '#'),
    ("lp", '('),
    ("rp", ')'),
    ("lk", '['),
    ("rk", ']'),
    ("lc", '{'),
    ("rc", '}'),
];

fn sym_char(name: &str) -> Result<char, String> {
    ALPHABET
        .iter()
        .find(|(n, _)| *n == name)
        .map(|(_, c)| *c)
        .ok_or_else(|| format!("unknown symbol `{name}`"))
}

////////////////////////////////////////////////////////////////////////////////
// S-expressions
////////////////////////////////////////////////////////////////////////////////

#[derive(Debug)]
enum Sx {
    Atom(String),
    List(Vec<Sx>),
}

/// Parses a sequence of S-expressions: atoms and parenthesised lists; atoms
/// are separated by whitespace or parentheses.
fn parse_sexps(input: &str) -> Result<Vec<Sx>, String> {
    fn flush(atom: &mut String, stack: &mut [Vec<Sx>]) {
        if !atom.is_empty() {
            let a = std::mem::take(atom);
            stack.last_mut().expect("non-empty stack").push(Sx::Atom(a));
        }
    }

    let mut stack: Vec<Vec<Sx>> = vec![Vec::new()];
    let mut atom = String::new();
    for ch in input.chars() {
        match ch {
            '(' => {
                flush(&mut atom, &mut stack);
                stack.push(Vec::new());
            }
            ')' => {
                flush(&mut atom, &mut stack);
                if stack.len() < 2 {
                    return Err("unbalanced `)`".into());
                }
                let l = stack.pop().expect("non-empty stack");
                stack.last_mut().expect("non-empty stack").push(Sx::List(l));
            }
            c if c.is_whitespace() => flush(&mut atom, &mut stack),
            c => atom.push(c),
        }
    }
    flush(&mut atom, &mut stack);
    if stack.len() != 1 {
        return Err("unbalanced `(`".into());
    }
    Ok(stack.pop().expect("non-empty stack"))
}

fn as_atom(sx: &Sx) -> Result<&str, String> {
    match sx {
        Sx::Atom(a) => Ok(a),
        Sx::List(_) => Err("expected an atom, found a list".into()),
    }
}

fn as_list(sx: &Sx) -> Result<&[Sx], String> {
    match sx {
        Sx::List(l) => Ok(l),
        Sx::Atom(a) => Err(format!("expected a list, found atom `{a}`")),
    }
}

fn as_num(sx: &Sx) -> Result<usize, String> {
    let a = as_atom(sx)?;
    a.parse::<usize>().map_err(|_| format!("expected a decimal number, found `{a}`"))
}

fn as_u32(sx: &Sx) -> Result<u32, String> {
    u32::try_from(as_num(sx)?).map_err(|_| "number does not fit in u32".to_string())
}

fn as_bool(sx: &Sx) -> Result<bool, String> {
    match as_atom(sx)? {
        "T" => Ok(true),
        "F" => Ok(false),
        other => Err(format!("expected `T` or `F`, found `{other}`")),
    }
}

fn as_flag(sx: &Sx) -> Result<bool, String> {
    match as_atom(sx)? {
        "1" => Ok(true),
        "0" => Ok(false),
        other => Err(format!("expected `0` or `1`, found `{other}`")),
    }
}

fn as_text(items: &[Sx]) -> Result<String, String> {
    items.iter().map(|s| sym_char(as_atom(s)?)).collect()
}

fn as_le(sx: &Sx) -> Result<LineEnding, String> {
    match as_atom(sx)? {
        "lf" => Ok(LineEnding::Lf),
        "cr" => Ok(LineEnding::Cr),
        "crlf" => Ok(LineEnding::CrLf),
        other => Err(format!("unknown line ending `{other}`")),
    }
}

fn as_tab(sx: &Sx) -> Result<u8, String> {
    u8::try_from(as_num(sx)?).map_err(|_| "tab width does not fit in u8".to_string())
}

/// `hi`: a number or `inf`.
fn as_hi(sx: &Sx) -> Result<Option<usize>, String> {
    match sx {
        Sx::Atom(a) if a == "inf" => Ok(None),
        _ => as_num(sx).map(Some),
    }
}

/// Splits `(head arg...)` into its head atom and arguments.
fn head_args(sx: &Sx) -> Result<(&str, &[Sx]), String> {
    match as_list(sx)? {
        [head, args @ ..] => Ok((as_atom(head)?, args)),
        [] => Err("empty list".into()),
    }
}

/// The `(key arg...)` fields of a case.
struct Fields<'a>(Vec<(&'a str, &'a [Sx])>);

impl<'a> Fields<'a> {
    fn parse(items: &'a [Sx]) -> Result<Self, String> {
        let mut v: Vec<(&'a str, &'a [Sx])> = Vec::new();
        for item in items {
            let (key, args) = head_args(item)?;
            if v.iter().any(|(k, _)| *k == key) {
                return Err(format!("duplicate field `{key}`"));
            }
            v.push((key, args));
        }
        Ok(Fields(v))
    }

    fn get(&self, key: &str) -> Result<&'a [Sx], String> {
        self.0
            .iter()
            .find(|(k, _)| *k == key)
            .map(|(_, a)| *a)
            .ok_or_else(|| format!("missing field `{key}`"))
    }

    fn one(&self, key: &str) -> Result<&'a Sx, String> {
        match self.get(key)? {
            [a] => Ok(a),
            _ => Err(format!("field `{key}` expects exactly one argument")),
        }
    }

    fn only(&self, allowed: &[&str]) -> Result<(), String> {
        for (k, _) in &self.0 {
            if !allowed.contains(k) {
                return Err(format!("unknown field `{k}`"));
            }
        }
        Ok(())
    }
}

////////////////////////////////////////////////////////////////////////////////
// Tokens and scanners
////////////////////////////////////////////////////////////////////////////////

#[derive(Debug, Clone, Copy, PartialEq, Eq)]
enum Kind {
    A,
    B,
    C,
    D,
    X,
    U,
    Ws,
    Comma,
    Semi,
    Hash,
    LP,
    RP,
    LK,
    RK,
    LC,
    RC,
}

const KINDS: &[(&str, Kind)] = &[
    ("A", Kind::A),
    ("B", Kind::B),
    ("C", Kind::C),
    ("D", Kind::D),
    ("X", Kind::X),
    ("U", Kind::U),
    ("Ws", Kind::Ws),
    ("Comma", Kind::Comma),
    ("Semi", Kind::Semi),
    ("Hash", Kind::Hash),
    ("LP", Kind::LP),
    ("RP", Kind::RP),
    ("LK", Kind::LK),
    ("RK", Kind::RK),
    ("LC", Kind::LC),
    ("RC", Kind::RC),
];

impl Kind {
    fn name(self) -> &'static str {
        KINDS
            .iter()
            .find(|(_, k)| *k == self)
            .map(|(n, _)| *n)
            .expect("every kind is named")
    }
}

fn as_kind(sx: &Sx) -> Result<Kind, String> {
    let a = as_atom(sx)?;
    KINDS
        .iter()
        .find(|(n, _)| *n == a)
        .map(|(_, k)| *k)
        .ok_or_else(|| format!("unknown token kind `{a}`"))
}

fn as_kinds(items: &[Sx]) -> Result<Vec<Kind>, String> {
    items.iter().map(as_kind).collect()
}

#[derive(Debug, Clone, Copy, PartialEq)]
struct Tok {
    kind: Kind,
    n: u32,
}

impl Tok {
    fn plain(kind: Kind) -> Self {
        Tok { kind, n: 0 }
    }
}

impl fmt::Display for Tok {
    fn fmt(&self, f: &mut fmt::Formatter<'_>) -> fmt::Result {
        write!(f, "{}", self.kind.name())
    }
}

/// A set of token kinds (small `Copy` bitmask, usable in `'static + Clone` closures).
#[derive(Debug, Clone, Copy, PartialEq, Eq)]
struct KindSet(u32);

impl KindSet {
    fn of(kinds: &[Kind]) -> Self {
        KindSet(kinds.iter().fold(0u32, |m, k| m | (1u32 << (*k as u32))))
    }

    fn has(self, kind: Kind) -> bool {
        self.0 & (1u32 << (kind as u32)) != 0
    }
}

/// The kind-set predicate used by `next_if`, `advance_*` and the abort predicates.
fn kind_pred(set: KindSet) -> impl Fn(&Tok) -> bool + Clone + 'static {
    move |t: &Tok| set.has(t.kind)
}

/// Tokens with `n = 0`, leaked so that token slices outlive the parsers built on them.
fn leak_toks(kinds: &[Kind]) -> &'static [Tok] {
    Box::leak(kinds.iter().map(|k| Tok::plain(*k)).collect::<Vec<_>>().into_boxed_slice())
}

#[derive(Debug, Clone, Copy, PartialEq, Eq)]
enum Mode {
    Plain,
    Counting,
    Modal,
    /// tokenises like `plain`, measures every token end with `SourceTextRef::position_after_str`
    Literal,
    /// like `literal`, whitespace runs measured with `position_after_chars_matching`
    Matching,
}

/// The one scanner type of the harness; `mode` selects `plain`, `counting`, `modal`, `literal` or `matching`.
#[derive(Debug, Clone, PartialEq)]
struct Scn {
    mode: Mode,
    /// `counting`: number of successful scans so far.
    c: u32,
    /// `modal`: whether `a`/`b` are swapped.
    swapped: bool,
}

impl Scn {
    fn new(mode: Mode) -> Self {
        Scn { mode, c: 0, swapped: false }
    }
}

fn as_scanner(sx: &Sx) -> Result<Scn, String> {
    Ok(Scn::new(match as_atom(sx)? {
        "plain" => Mode::Plain,
        "counting" => Mode::Counting,
        "modal" => Mode::Modal,
        "literal" => Mode::Literal,
        "matching" => Mode::Matching,
        other => return Err(format!("unknown scanner `{other}`")),
    }))
}

fn is_ws(c: char) -> bool {
    matches!(c, ' ' | '\t' | '\r' | '\n')
}

impl Scanner for Scn {
    type Token = Tok;

    fn scan(&mut self, source: SourceTextRef<'_>, base: Pos) -> Option<(Tok, Pos)> {
        let all = source.as_str();
        let text = &all[base.byte..];
        let first = text.chars().next()?;

        let swap = self.mode == Mode::Modal && self.swapped;
        let (kind, len) = match first {
            'a' => (if swap { Kind::B } else { Kind::A }, 1),
            'b' => (if swap { Kind::A } else { Kind::B }, 1),
            'c' => (Kind::C, 1),
            'd' => (Kind::D, 1),
            'x' => (Kind::X, 1),
            '\u{00E9}' | '\u{4E16}' | '\u{200B}' | '\u{1F600}' | '\u{0301}' => {
                (Kind::U, first.len_utf8())
            }
            c if is_ws(c) => {
                let rest = text.trim_start_matches(is_ws);
                (Kind::Ws, text.len() - rest.len())
            }
            ',' => (Kind::Comma, 1),
            ';' => (Kind::Semi, 1),
            '#' => (Kind::Hash, 1),
            '(' => (Kind::LP, 1),
            ')' => (Kind::RP, 1),
            '[' => (Kind::LK, 1),
            ']' => (Kind::RK, 1),
            '{' => (Kind::LC, 1),
            '}' => (Kind::RC, 1),
            // `bang` and anything outside the alphabet: unrecognised.
            _ => return None,
        };

        let e = base.byte + len;
        let end = match self.mode {
            Mode::Matching if kind == Kind::Ws => source.position_after_chars_matching(base, is_ws)?,
            Mode::Literal | Mode::Matching => source.position_after_str(base, &text[..len])?,
            _ => source.column_metrics().end_position(&all[..e], base),
        };

        let n = match self.mode {
            Mode::Plain | Mode::Literal | Mode::Matching => 0,
            Mode::Counting => {
                self.c += 1;
                self.c
            }
            Mode::Modal => {
                match kind {
                    Kind::LP => self.swapped = true,
                    Kind::RP => self.swapped = false,
                    _ => (),
                }
                0
            }
        };
        Some((Tok { kind, n }, end))
    }
}

/// Filter spec `F`.
#[derive(Debug, Clone, Copy)]
enum FilterSpec {
    None,
    Drop(KindSet),
    Keep(KindSet),
}

type FilterRc = Rc<dyn Fn(&Tok) -> bool>;

impl FilterSpec {
    fn keeps(self, t: &Tok) -> bool {
        match self {
            FilterSpec::None => true,
            FilterSpec::Drop(s) => !s.has(t.kind),
            FilterSpec::Keep(s) => s.has(t.kind),
        }
    }

    /// The `Option<Rc<closure>>` of `with_filter` / `set_filter`.
    fn to_rc(self) -> Option<FilterRc> {
        match self {
            FilterSpec::None => None,
            spec => Some(Rc::new(move |t: &Tok| spec.keeps(t))),
        }
    }
}

fn as_filter(sx: &Sx) -> Result<FilterSpec, String> {
    match sx {
        Sx::Atom(a) if a == "none" => Ok(FilterSpec::None),
        Sx::Atom(a) => Err(format!("unknown filter `{a}`")),
        Sx::List(_) => {
            let (head, args) = head_args(sx)?;
            let set = KindSet::of(&as_kinds(args)?);
            match head {
                "drop" => Ok(FilterSpec::Drop(set)),
                "keep" => Ok(FilterSpec::Keep(set)),
                other => Err(format!("unknown filter `{other}`")),
            }
        }
    }
}

////////////////////////////////////////////////////////////////////////////////
// Types of the layer under test, instantiated
////////////////////////////////////////////////////////////////////////////////

type Lx = Lexer<'static, Scn>;
type Cx = Context<'static, Scn>;
type Res<V> = ParseResult<'static, Scn, V>;
/// A compiled grammar.
type P = Box<dyn FnMut(Lx, Cx) -> Res<Val> + 'static>;

fn bx(f: impl FnMut(Lx, Cx) -> Res<Val> + 'static) -> P {
    Box::new(f)
}

fn leak_text(text: &str) -> &'static str {
    Box::leak(text.to_string().into_boxed_str())
}

////////////////////////////////////////////////////////////////////////////////
// Harness error types
////////////////////////////////////////////////////////////////////////////////

#[derive(Debug)]
struct Probe(u32);

impl fmt::Display for Probe {
    fn fmt(&self, f: &mut fmt::Formatter<'_>) -> fmt::Result {
        write!(f, "probe {}", self.0)
    }
}

impl std::error::Error for Probe {}

impl ParseError for Probe {
    fn into_error(self: Box<Self>) -> Box<dyn std::error::Error + Send + Sync + 'static> {
        self
    }
}

#[derive(Debug)]
struct Tagged {
    tag: String,
    inner: Box<dyn ParseError>,
}

impl fmt::Display for Tagged {
    fn fmt(&self, f: &mut fmt::Formatter<'_>) -> fmt::Result {
        write!(f, "tagged {}: {}", self.tag, self.inner)
    }
}

impl std::error::Error for Tagged {}

impl ParseError for Tagged {
    fn error_span(&self) -> Option<Span> {
        self.inner.error_span()
    }

    fn into_error(self: Box<Self>) -> Box<dyn std::error::Error + Send + Sync + 'static> {
        self
    }
}

#[derive(Debug)]
struct UserError;

impl fmt::Display for UserError {
    fn fmt(&self, f: &mut fmt::Formatter<'_>) -> fmt::Result {
        write!(f, "user error")
    }
}

impl std::error::Error for UserError {}

impl ParseError for UserError {
    fn into_error(self: Box<Self>) -> Box<dyn std::error::Error + Send + Sync + 'static> {
        self
    }
}

/// `transform(TAG)`: wraps the error in `Tagged`.
fn transform(tag: &str) -> ErrorTransform<'static> {
    let tag = tag.to_string();
    Rc::new(move |e: Box<dyn ParseError>| -> Box<dyn ParseError> {
        Box::new(Tagged { tag: tag.clone(), inner: e })
    })
}

/// The tags of an error, from the innermost `Tagged` (applied first) to the outermost.
fn trail(e: &(dyn ParseError + 'static)) -> Vec<String> {
    let mut tags = Vec::new();
    let mut cur: &(dyn ParseError + 'static) = e;
    while let Some(t) = cur.as_error().downcast_ref::<Tagged>() {
        tags.push(t.tag.clone());
        cur = &*t.inner;
    }
    tags.reverse();
    tags
}

////////////////////////////////////////////////////////////////////////////////
// Value rendering
////////////////////////////////////////////////////////////////////////////////

const PANIC: &str = "PANIC";

fn r_pos(p: Pos) -> String {
    format!("{}:{}:{}", p.byte, p.page.line, p.page.column)
}

fn r_span(s: Span) -> String {
    format!("{}~{}", r_pos(s.start()), r_pos(s.end()))
}

fn r_ospan(s: Option<Span>) -> String {
    s.map_or_else(|| "-".to_string(), r_span)
}

fn r_bool(b: bool) -> &'static str {
    if b {
        "T"
    } else {
        "F"
    }
}

fn r_tok(t: &Tok) -> String {
    if t.n == 0 {
        t.kind.name().to_string()
    } else {
        format!("{}/{}", t.kind.name(), t.n)
    }
}

fn r_otok(t: &Option<Tok>) -> String {
    t.as_ref().map_or_else(|| "-".to_string(), r_tok)
}

/// Appends ` item` for every item.
fn push_all(out: &mut String, items: &[String]) {
    for i in items {
        out.push(' ');
        out.push_str(i);
    }
}

/// Runs a piece of work under `catch_unwind`.
fn guard<T>(call: impl FnOnce() -> T) -> Option<T> {
    catch_unwind(AssertUnwindSafe(call)).ok()
}

/// Describes an error by downcasting.
fn describe(e: &(dyn ParseError + 'static)) -> String {
    let err = e.as_error();
    if let Some(u) = err.downcast_ref::<UnexpectedTokenError<Tok>>() {
        let exp = match &u.expected {
            Expected::Token(t) => format!("(tok {})", r_tok(t)),
            Expected::Tokens(ts) => {
                let mut s = String::from("(any");
                for t in ts {
                    s.push(' ');
                    s.push_str(&r_tok(t));
                }
                s.push(')');
                s
            }
            Expected::EndOfText => "eot".to_string(),
            Expected::Other(_) => "other".to_string(),
            Expected::AnyToken => "anytoken".to_string(),
        };
        let found = match &u.found {
            Found::Token(t) => r_tok(t),
            Found::EndOfText => "eot".to_string(),
        };
        format!(
            "(unexpected (es {}) (ts {}) (exp {}) (found {}))",
            r_span(u.error_span),
            r_span(u.token_span),
            exp,
            found
        )
    } else if let Some(u) = err.downcast_ref::<UnrecognizedTokenError>() {
        format!("(unrecognized (es {}))", r_span(u.error_span))
    } else if let Some(b) = err.downcast_ref::<ParseBoundaryError>() {
        format!("(boundary (es {}) (end {}))", r_span(b.error_span), r_pos(b.expected_end_pos))
    } else if let Some(m) = err.downcast_ref::<MatchBracketError>() {
        match m {
            MatchBracketError::NoneFound { expected_start } => {
                format!("(bracket none {})", r_span(*expected_start))
            }
            MatchBracketError::Unclosed { found_start } => {
                format!("(bracket unclosed {})", r_span(*found_start))
            }
            MatchBracketError::Unopened { found_end } => {
                format!("(bracket unopened {})", r_span(*found_end))
            }
            MatchBracketError::Mismatch { found_start, found_end } => {
                format!("(bracket mismatch {} {})", r_span(*found_start), r_span(*found_end))
            }
        }
    } else if let Some(c) = err.downcast_ref::<RepeatCountError>() {
        format!(
            "(count (es {}) {} {} {})",
            r_span(c.error_span),
            c.found,
            c.expected_min,
            c.expected_max.map_or_else(|| "inf".to_string(), |m| m.to_string())
        )
    } else if err.downcast_ref::<RecoverError>().is_some() {
        "recover".to_string()
    } else if let Some(t) = err.downcast_ref::<Tagged>() {
        format!("(tagged {} {})", t.tag, describe(&*t.inner))
    } else if let Some(p) = err.downcast_ref::<Probe>() {
        format!("(probe {})", p.0)
    } else if err.downcast_ref::<UserError>().is_some() {
        "user".to_string()
    } else {
        "(unknown)".to_string()
    }
}

////////////////////////////////////////////////////////////////////////////////
// lex-case
////////////////////////////////////////////////////////////////////////////////

enum BuildOp {
    Metrics(LineEnding, u8),
    Le(LineEnding),
    Tab(u8),
    Filter(FilterSpec),
}

enum LexOp {
    Next,
    Peek,
    NextIf(KindSet),
    NextIfEq(Tok),
    AdvTo(KindSet),
    AdvUpTo(KindSet),
    SetFilter(FilterSpec),
    Sublex,
    IntoSub,
    EmptyF,
    Query,
    Drain,
    Clone(Vec<LexOp>),
}

impl LexOp {
    fn name(&self) -> &'static str {
        match self {
            LexOp::Next => "next",
            LexOp::Peek => "peek",
            LexOp::NextIf(_) => "nextif",
            LexOp::NextIfEq(_) => "nextifeq",
            LexOp::AdvTo(_) => "advto",
            LexOp::AdvUpTo(_) => "advupto",
            LexOp::SetFilter(_) => "setfilter",
            LexOp::Sublex => "sublex",
            LexOp::IntoSub => "intosub",
            LexOp::EmptyF => "emptyf",
            LexOp::Query => "query",
            LexOp::Drain => "drain",
            LexOp::Clone(_) => "clone",
        }
    }
}

fn parse_build_op(sx: &Sx) -> Result<BuildOp, String> {
    let (head, args) = head_args(sx)?;
    match (head, args) {
        ("metrics", [le, tab]) => Ok(BuildOp::Metrics(as_le(le)?, as_tab(tab)?)),
        ("le", [le]) => Ok(BuildOp::Le(as_le(le)?)),
        ("tab", [tab]) => Ok(BuildOp::Tab(as_tab(tab)?)),
        ("filter", [f]) => Ok(BuildOp::Filter(as_filter(f)?)),
        _ => Err(format!("bad build op `{head}`")),
    }
}

fn parse_lex_op(sx: &Sx) -> Result<LexOp, String> {
    match sx {
        Sx::Atom(a) => match a.as_str() {
            "next" => Ok(LexOp::Next),
            "peek" => Ok(LexOp::Peek),
            "sublex" => Ok(LexOp::Sublex),
            "intosub" => Ok(LexOp::IntoSub),
            "emptyf" => Ok(LexOp::EmptyF),
            "query" => Ok(LexOp::Query),
            "drain" => Ok(LexOp::Drain),
            other => Err(format!("unknown lexer op `{other}`")),
        },
        Sx::List(_) => {
            let (head, args) = head_args(sx)?;
            match head {
                "nextif" => Ok(LexOp::NextIf(KindSet::of(&as_kinds(args)?))),
                "nextifeq" => match args {
                    [k, n] => Ok(LexOp::NextIfEq(Tok { kind: as_kind(k)?, n: as_u32(n)? })),
                    _ => Err("expected `(nextifeq KIND N)`".into()),
                },
                "advto" => Ok(LexOp::AdvTo(KindSet::of(&as_kinds(args)?))),
                "advupto" => Ok(LexOp::AdvUpTo(KindSet::of(&as_kinds(args)?))),
                "setfilter" => match args {
                    [f] => Ok(LexOp::SetFilter(as_filter(f)?)),
                    _ => Err("expected `(setfilter F)`".into()),
                },
                "clone" => {
                    Ok(LexOp::Clone(args.iter().map(parse_lex_op).collect::<Result<_, _>>()?))
                }
                // The argument-less ops are also accepted in list form.
                "next" | "peek" | "sublex" | "intosub" | "emptyf" | "query" | "drain" if args.is_empty() => {
                    parse_lex_op(&Sx::Atom(head.to_string()))
                }
                other => Err(format!("unknown lexer op `{other}`")),
            }
        }
    }
}

/// `OBS`: the eight observer calls, spliced.
fn lex_obs(l: &Lx) -> String {
    format!(
        "(ts {}) (ps {}) (cur {}) (pk {}) (emp {}) (flt {}) (pps {}) (pcur {})",
        r_span(l.token_span()),
        r_span(l.parse_span()),
        r_pos(l.cursor_pos()),
        r_ospan(l.peek_token_span()),
        r_bool(l.is_empty()),
        r_bool(l.filter().is_some()),
        r_ospan(l.peek_parse_span()),
        match l.peek_cursor_pos() { Some(p) => r_pos(p), None => "-".to_string() }
    )
}

/// `iter_with_spans()` to exhaustion: one `(TOK SPAN TEXT)` per token.
fn drain_items(l: &mut Lx, text: &'static str) -> Vec<String> {
    // `SourceText::clipped` borrows the source for the text lifetime.
    let src: &'static SourceTextRef<'static> = Box::leak(Box::new(l.source_text()));
    let base = text.as_ptr() as usize;
    let mut items = Vec::new();
    for (tok, span) in l.iter_with_spans() {
        let clip = src.clipped(span);
        let s = clip.as_str();
        let off = (s.as_ptr() as usize).wrapping_sub(base);
        let range = if off <= text.len() && off + s.len() <= text.len() {
            format!("{}..{}", off, off + s.len())
        } else {
            "?".to_string()
        };
        items.push(format!("({} {} {})", r_tok(&tok), r_span(span), range));
    }
    items
}

/// Executes one non-clone op and renders `RESULT OBS`.
fn exec_lex_op(op: &LexOp, slot: &mut Option<Lx>, text: &'static str) -> String {
    let result = {
        let l = slot.as_mut().expect("lexer present");
        match op {
            LexOp::Next => r_otok(&l.next()),
            LexOp::Peek => r_otok(&l.peek()),
            LexOp::NextIf(set) => {
                let set = *set;
                r_otok(&l.next_if(|t| set.has(t.kind)))
            }
            LexOp::NextIfEq(tok) => r_otok(&l.next_if_eq(tok)),
            LexOp::AdvTo(set) => r_bool(l.advance_to(kind_pred(*set))).to_string(),
            LexOp::AdvUpTo(set) => r_bool(l.advance_up_to(kind_pred(*set))).to_string(),
            LexOp::SetFilter(f) => r_bool(l.set_filter(f.to_rc()).is_some()).to_string(),
            LexOp::Sublex => {
                l.start_sublex();
                "-".to_string()
            }
            LexOp::IntoSub => {
                let taken = slot.take().expect("lexer present");
                *slot = Some(taken.into_sublexer());
                "-".to_string()
            }
            LexOp::EmptyF => r_bool(l.is_empty_with_filter()).to_string(),
            LexOp::Query => "-".to_string(),
            LexOp::Drain => {
                let items = drain_items(l, text);
                let mut s = String::from("(");
                s.push_str(&items.join(" "));
                s.push(')');
                s
            }
            LexOp::Clone(_) => unreachable!("clone is handled by run_lex_ops"),
        }
    };
    let l = slot.as_ref().expect("lexer present");
    format!("{} {}", result, lex_obs(l))
}

/// Runs the ops, appending ` OBSERVATION` for each. Returns `false` after a panic
/// (the case stops; everything opened by this call has been closed).
fn run_lex_ops(ops: &[LexOp], slot: &mut Option<Lx>, text: &'static str, out: &mut String) -> bool {
    for op in ops {
        match op {
            LexOp::Clone(inner) => {
                let mut cl = match guard(|| slot.clone()) {
                    Some(c) => c,
                    None => {
                        out.push_str(" (clone PANIC)");
                        return false;
                    }
                };
                let mut inner_out = String::new();
                let ok = run_lex_ops(inner, &mut cl, text, &mut inner_out);
                out.push_str(" (clone (");
                out.push_str(inner_out.trim_start());
                out.push(')');
                if !ok {
                    out.push(')');
                    return false;
                }
                match guard(|| drain_items(cl.as_mut().expect("lexer present"), text)) {
                    Some(items) => {
                        out.push_str(" (drained");
                        push_all(out, &items);
                        out.push(')');
                    }
                    None => {
                        out.push_str(" (drained PANIC))");
                        return false;
                    }
                }
                drop(cl);
                match guard(|| lex_obs(slot.as_ref().expect("lexer present"))) {
                    Some(obs) => {
                        out.push(' ');
                        out.push_str(&obs);
                        out.push(')');
                    }
                    None => {
                        out.push_str(" PANIC)");
                        return false;
                    }
                }
            }
            _ => match guard(|| exec_lex_op(op, slot, text)) {
                Some(s) => {
                    out.push_str(&format!(" ({} {})", op.name(), s));
                }
                None => {
                    out.push_str(&format!(" ({} {PANIC})", op.name()));
                    return false;
                }
            },
        }
    }
    true
}

fn run_lex_case(id: &str, fields: &[Sx]) -> Result<String, String> {
    let f = Fields::parse(fields)?;
    f.only(&["scanner", "text", "build", "ops"])?;
    let scanner = as_scanner(f.one("scanner")?)?;
    let text = leak_text(&as_text(f.get("text")?)?);
    let build: Vec<BuildOp> =
        f.get("build")?.iter().map(parse_build_op).collect::<Result<_, _>>()?;
    let ops: Vec<LexOp> = f.get("ops")?.iter().map(parse_lex_op).collect::<Result<_, _>>()?;

    let mut out = format!("({id}");
    let built = guard(|| {
        let mut l = Lexer::new(scanner, SourceText::new(text));
        for b in &build {
            l = match b {
                BuildOp::Metrics(le, tab) => l.with_column_metrics(
                    ColumnMetrics::new().with_line_ending(*le).with_tab_width(*tab),
                ),
                BuildOp::Le(le) => l.with_line_ending(*le),
                BuildOp::Tab(tab) => l.with_tab_width(*tab),
                BuildOp::Filter(spec) => l.with_filter(spec.to_rc()),
            };
        }
        let obs = lex_obs(&l);
        (l, obs)
    });
    match built {
        None => out.push_str(" (init PANIC)"),
        Some((l, obs)) => {
            out.push_str(&format!(" (init {obs})"));
            let mut slot = Some(l);
            let _ = run_lex_ops(&ops, &mut slot, text, &mut out);
        }
    }
    out.push(')');
    Ok(out)
}

////////////////////////////////////////////////////////////////////////////////
// ctx-case
////////////////////////////////////////////////////////////////////////////////

enum Tree {
    Push(String, Vec<Tree>),
    PushMut(String, Vec<Tree>),
    Locked(bool, Vec<Tree>),
    Fork(Vec<Tree>),
    Raw(Vec<Tree>, bool),
    Unrec(Vec<Tree>, bool),
    Send(u32),
    Apply(u32),
}

fn parse_trees(items: &[Sx]) -> Result<Vec<Tree>, String> {
    items.iter().map(parse_tree).collect()
}

fn parse_tree(sx: &Sx) -> Result<Tree, String> {
    let (head, args) = head_args(sx)?;
    match (head, args) {
        ("push", [tag, rest @ ..]) => Ok(Tree::Push(as_atom(tag)?.to_string(), parse_trees(rest)?)),
        ("pushmut", [tag, rest @ ..]) => {
            Ok(Tree::PushMut(as_atom(tag)?.to_string(), parse_trees(rest)?))
        }
        ("locked", [b, rest @ ..]) => Ok(Tree::Locked(as_bool(b)?, parse_trees(rest)?)),
        ("fork", rest) => Ok(Tree::Fork(parse_trees(rest)?)),
        ("raw", rest) => Ok(Tree::Raw(parse_trees(rest)?, false)),
        ("unrec", rest) => Ok(Tree::Unrec(parse_trees(rest)?, false)),
        ("rawf", rest) => Ok(Tree::Raw(parse_trees(rest)?, true)),
        ("unrecf", rest) => Ok(Tree::Unrec(parse_trees(rest)?, true)),
        ("send", [n]) => Ok(Tree::Send(as_u32(n)?)),
        ("apply", [n]) => Ok(Tree::Apply(as_u32(n)?)),
        _ => Err(format!("bad context tree node `{head}`")),
    }
}

struct CtxState {
    /// The output events, in execution order.
    events: RefCell<Vec<String>>,
    /// The trail of every error delivered to the sink.
    sunk: Rc<RefCell<Vec<Vec<String>>>>,
}

fn dummy_lexer() -> Lx {
    Lexer::new(Scn::new(Mode::Plain), SourceText::new("a"))
}

fn run_trees(trees: &[Tree], ctx: &Cx, st: &CtxState) {
    for t in trees {
        run_tree(t, ctx, st);
    }
}

fn event(head: &str, n: u32, how: Option<&str>, tags: &[String]) -> String {
    let mut s = format!("({head} {n}");
    if let Some(h) = how {
        s.push(' ');
        s.push_str(h);
    }
    push_all(&mut s, tags);
    s.push(')');
    s
}

fn run_tree(t: &Tree, ctx: &Cx, st: &CtxState) {
    match t {
        Tree::Push(tag, children) => {
            let c = ctx.clone().pushed(transform(tag));
            run_trees(children, &c, st);
        }
        Tree::PushMut(tag, children) => {
            let mut c = ctx.clone();
            c.push(transform(tag));
            run_trees(children, &c, st);
        }
        Tree::Locked(b, children) => {
            let c = ctx.clone().locked(*b);
            run_trees(children, &c, st);
        }
        Tree::Fork(children) => {
            for child in children {
                let c = ctx.clone();
                run_tree(child, &c, st);
            }
        }
        Tree::Raw(children, fails) => {
            let mut p = tc::raw(|l: Lx, c: Cx| -> Res<()> {
                run_trees(children, &c, st);
                if *fails { Err(Box::new(Probe(0))) } else { Ok(Success::new((), l)) }
            });
            let _ = p(dummy_lexer(), ctx.clone());
        }
        Tree::Unrec(children, fails) => {
            let mut p = tc::unrecoverable(|l: Lx, c: Cx| -> Res<()> {
                run_trees(children, &c, st);
                if *fails { Err(Box::new(Probe(0))) } else { Ok(Success::new((), l)) }
            });
            let _ = p(dummy_lexer(), ctx.clone());
        }
        Tree::Send(n) => {
            let before = st.sunk.borrow().len();
            let ev = match ctx.send_error(Box::new(Probe(*n))) {
                Ok(()) => {
                    let sunk = st.sunk.borrow();
                    let tags: &[String] = if sunk.len() > before {
                        sunk.last().map_or(&[], |v| v.as_slice())
                    } else {
                        &[]
                    };
                    event("send", *n, Some("sink"), tags)
                }
                Err(e) => event("send", *n, Some("ret"), &trail(&*e)),
            };
            st.events.borrow_mut().push(ev);
        }
        Tree::Apply(n) => {
            let r: Res<()> = Err(Box::new(Probe(*n)));
            let ev = match r.apply_context(ctx.clone()) {
                Err(e) => event("apply", *n, None, &trail(&*e)),
                Ok(_) => event("apply", *n, Some("ok"), &[]),
            };
            st.events.borrow_mut().push(ev);
        }
    }
}

fn run_ctx_case(id: &str, fields: &[Sx]) -> Result<String, String> {
    let f = Fields::parse(fields)?;
    f.only(&["sink", "tree"])?;
    let with_sink = as_flag(f.one("sink")?)?;
    let trees = parse_trees(f.get("tree")?)?;

    let st = CtxState {
        events: RefCell::new(Vec::new()),
        sunk: Rc::new(RefCell::new(Vec::new())),
    };
    let finished = guard(|| {
        let root: Cx = if with_sink {
            let rec = Rc::clone(&st.sunk);
            let sink: ErrorSink<'static> =
                Box::new(move |e: Box<dyn ParseError>| rec.borrow_mut().push(trail(&*e)));
            Context::new(Some(sink))
        } else {
            Context::empty()
        };
        run_trees(&trees, &root, &st);
    });

    let mut out = format!("({id}");
    // A panic may have left a borrow flag set only if it happened inside a borrow;
    // events are pushed with short-lived borrows, so this cannot fail in practice.
    let events = st.events.try_borrow().map(|e| e.clone()).unwrap_or_default();
    push_all(&mut out, &events);
    if finished.is_none() {
        out.push(' ');
        out.push_str(PANIC);
    }
    out.push(')');
    Ok(out)
}

////////////////////////////////////////////////////////////////////////////////
// hctx-case: the whole Context API as a register machine
////////////////////////////////////////////////////////////////////////////////

enum HOp {
    New(usize, Option<u32>),
    Clone(usize, usize),
    Pushed(usize, usize, String),
    Push(usize, String),
    Locked(usize, bool),
    NoSink(usize, usize),
    NoLocal(usize, usize),
    TakeSink(usize, usize),
    ReplSink(usize, usize),
    TakeLocal(usize, usize),
    ReplLocal(usize, usize),
    Send(usize, u32),
    Apply(usize, u32),
}

fn as_reg(sx: &Sx, bound: usize) -> Result<usize, String> {
    let n = as_u32(sx)? as usize;
    if n < bound { Ok(n) } else { Err(format!("register {n} out of range")) }
}

fn parse_hop(sx: &Sx) -> Result<HOp, String> {
    let (head, args) = head_args(sx)?;
    match (head, args) {
        ("new", [i, s]) => {
            let sink = match as_atom(s)? { "-" => None, a => Some(a.parse::<u32>().map_err(|e| e.to_string())?) };
            Ok(HOp::New(as_reg(i, 4)?, sink))
        }
        ("clone", [i, j]) => Ok(HOp::Clone(as_reg(i, 4)?, as_reg(j, 4)?)),
        ("pushed", [i, j, t]) => Ok(HOp::Pushed(as_reg(i, 4)?, as_reg(j, 4)?, as_atom(t)?.to_string())),
        ("push", [i, t]) => Ok(HOp::Push(as_reg(i, 4)?, as_atom(t)?.to_string())),
        ("locked", [i, b]) => Ok(HOp::Locked(as_reg(i, 4)?, as_bool(b)?)),
        ("nosink", [i, j]) => Ok(HOp::NoSink(as_reg(i, 4)?, as_reg(j, 4)?)),
        ("nolocal", [i, j]) => Ok(HOp::NoLocal(as_reg(i, 4)?, as_reg(j, 4)?)),
        ("takesink", [i, k]) => Ok(HOp::TakeSink(as_reg(i, 4)?, as_reg(k, 2)?)),
        ("replsink", [i, k]) => Ok(HOp::ReplSink(as_reg(i, 4)?, as_reg(k, 2)?)),
        ("takelocal", [i, l]) => Ok(HOp::TakeLocal(as_reg(i, 4)?, as_reg(l, 2)?)),
        ("repllocal", [i, l]) => Ok(HOp::ReplLocal(as_reg(i, 4)?, as_reg(l, 2)?)),
        ("send", [i, n]) => Ok(HOp::Send(as_reg(i, 4)?, as_u32(n)?)),
        ("apply", [i, n]) => Ok(HOp::Apply(as_reg(i, 4)?, as_u32(n)?)),
        _ => Err(format!("bad hctx op `{head}`")),
    }
}

fn run_hctx_case(id: &str, fields: &[Sx]) -> Result<String, String> {
    let f = Fields::parse(fields)?;
    f.only(&["ops"])?;
    let ops: Vec<HOp> = f.get("ops")?.iter().map(parse_hop).collect::<Result<_, _>>()?;

    let events: RefCell<Vec<String>> = RefCell::new(Vec::new());
    // what the sinks received: (sink id, trail)
    let sunk: Rc<RefCell<Vec<(u32, Vec<String>)>>> = Rc::new(RefCell::new(Vec::new()));
    let finished = guard(|| {
        let mut regs: Vec<Cx> = (0..4).map(|_| Context::empty()).collect();
        let mut ks: Vec<Option<ErrorSink<'static>>> = vec![None, None];
        let mut ls: Vec<Option<tephra::LocalContext<'static, Scn>>> = vec![None, None];
        for op in &ops {
            match op {
                HOp::New(i, sink) => {
                    regs[*i] = match sink {
                        Some(sid) => {
                            let rec = Rc::clone(&sunk);
                            let sid = *sid;
                            let sink: ErrorSink<'static> =
                                Box::new(move |e: Box<dyn ParseError>| rec.borrow_mut().push((sid, trail(&*e))));
                            Context::new(Some(sink))
                        }
                        None => Context::empty(),
                    };
                }
                HOp::Clone(i, j) => { let c = regs[*i].clone(); regs[*j] = c; }
                HOp::Pushed(i, j, tag) => { let c = regs[*i].clone().pushed(transform(tag)); regs[*j] = c; }
                HOp::Push(i, tag) => regs[*i].push(transform(tag)),
                HOp::Locked(i, b) => { let c = regs[*i].clone().locked(*b); regs[*i] = c; }
                HOp::NoSink(i, j) => { let c = regs[*i].without_error_sink(); regs[*j] = c; }
                HOp::NoLocal(i, j) => { let c = regs[*i].without_local_context(); regs[*j] = c; }
                HOp::TakeSink(i, k) => { ks[*k] = regs[*i].take_error_sink(); }
                HOp::ReplSink(i, k) => {
                    if let Some(s) = ks[*k].take() {
                        ks[*k] = regs[*i].replace_error_sink(s);
                    }
                }
                HOp::TakeLocal(i, l) => { ls[*l] = Some(regs[*i].take_local_context()); }
                HOp::ReplLocal(i, l) => {
                    // an empty slot holds the empty local context
                    let new = ls[*l].take().unwrap_or_else(|| Context::<Scn>::empty().take_local_context());
                    ls[*l] = Some(regs[*i].replace_local_context(new));
                }
                HOp::Send(i, n) => {
                    let before = sunk.borrow().len();
                    let ev = match regs[*i].send_error(Box::new(Probe(*n))) {
                        Ok(()) => {
                            let sunk = sunk.borrow();
                            if sunk.len() > before {
                                let (sid, tags) = sunk.last().expect("delivered");
                                event("send", *n, Some(&format!("sink{sid}")), tags)
                            } else {
                                event("send", *n, Some("lost"), &[])
                            }
                        }
                        Err(e) => event("send", *n, Some("ret"), &trail(&*e)),
                    };
                    events.borrow_mut().push(ev);
                }
                HOp::Apply(i, n) => {
                    let r: Res<()> = Err(Box::new(Probe(*n)));
                    let ev = match r.apply_context(regs[*i].clone()) {
                        Err(e) => event("apply", *n, None, &trail(&*e)),
                        Ok(_) => event("apply", *n, Some("ok"), &[]),
                    };
                    events.borrow_mut().push(ev);
                }
            }
        }
    });

    let mut out = format!("({id}");
    let evs = events.try_borrow().map(|e| e.clone()).unwrap_or_default();
    push_all(&mut out, &evs);
    if finished.is_none() {
        out.push(' ');
        out.push_str(PANIC);
    }
    out.push(')');
    Ok(out)
}

////////////////////////////////////////////////////////////////////////////////
// parse-case: values
////////////////////////////////////////////////////////////////////////////////

#[derive(Debug, Clone, PartialEq, Default)]
enum Val {
    /// `Val::default()`: the placeholder produced by the `*_default` combinators.
    #[default]
    Dflt,
    Unit,
    Tok(Tok),
    Nat(usize),
    Pair(Box<Val>, Box<Val>),
    Nothing,
    Just(Box<Val>),
    List(Vec<Val>),
    Tag(String, Box<Val>),
    Spanned(Span, Box<Val>),
    Text(usize, usize),
}

fn v_opt(o: Option<Val>) -> Val {
    match o {
        None => Val::Nothing,
        Some(v) => Val::Just(Box::new(v)),
    }
}

fn v_pair(l: Val, r: Val) -> Val {
    Val::Pair(Box::new(l), Box::new(r))
}

fn v_list_opt(vs: Vec<Option<Val>>) -> Val {
    Val::List(vs.into_iter().map(v_opt).collect())
}

fn v_toks(ts: Vec<Tok>) -> Val {
    Val::List(ts.into_iter().map(Val::Tok).collect())
}

fn r_val(v: &Val) -> String {
    match v {
        Val::Dflt => "dflt".to_string(),
        Val::Unit => "unit".to_string(),
        Val::Tok(t) => format!("(tok {})", r_tok(t)),
        Val::Nat(n) => format!("(nat {n})"),
        Val::Pair(l, r) => format!("(pair {} {})", r_val(l), r_val(r)),
        Val::Nothing => "(none)".to_string(),
        Val::Just(v) => format!("(some {})", r_val(v)),
        Val::List(vs) => {
            let mut s = String::from("(list");
            for v in vs {
                s.push(' ');
                s.push_str(&r_val(v));
            }
            s.push(')');
            s
        }
        Val::Tag(t, v) => format!("(tag {} {})", t, r_val(v)),
        Val::Spanned(sp, v) => format!("(spanned {} {})", r_span(*sp), r_val(v)),
        Val::Text(s, e) => format!("(text {s} {e})"),
    }
}

////////////////////////////////////////////////////////////////////////////////
// parse-case: grammar compilation
////////////////////////////////////////////////////////////////////////////////

/// What a compiled grammar shares with its case.
struct Env {
    /// The (leaked) source text of the case, for `(text S E)`.
    text: &'static str,
    /// Everything the sink received, described; plus `probe-ret` events.
    sink: Rc<RefCell<Vec<String>>>,
}

/// Adapts a real parser to return `Val`.
macro_rules! adapt {
    ($p:expr, $conv:expr) => {{
        let mut p = $p;
        bx(move |l: Lx, c: Cx| p(l, c).map_value($conv))
    }};
}

fn as_pred_expr(sx: &Sx) -> Result<tc::Expr<Tok>, String> {
    let (head, args) = head_args(sx)?;
    match (head, args) {
        ("is", [k]) => Ok(tc::Expr::Var(Tok::plain(as_kind(k)?))),
        ("not", [a]) => Ok(tc::Expr::Not(Box::new(as_pred_expr(a)?))),
        ("and", [a, b]) => {
            Ok(tc::Expr::And(Box::new(as_pred_expr(a)?), Box::new(as_pred_expr(b)?)))
        }
        ("or", [a, b]) => Ok(tc::Expr::Or(Box::new(as_pred_expr(a)?), Box::new(as_pred_expr(b)?))),
        _ => Err(format!("bad predicate expression `{head}`")),
    }
}

fn as_value_pred(sx: &Sx) -> Result<Box<dyn FnMut(&Val) -> bool>, String> {
    match sx {
        Sx::Atom(a) if a == "always" => Ok(Box::new(|_: &Val| true)),
        Sx::Atom(a) if a == "never" => Ok(Box::new(|_: &Val| false)),
        Sx::Atom(a) => Err(format!("unknown value predicate `{a}`")),
        Sx::List(_) => match head_args(sx)? {
            ("istok", [k]) => {
                let kind = as_kind(k)?;
                Ok(Box::new(move |v: &Val| matches!(v, Val::Tok(t) if t.kind == kind)))
            }
            (head, _) => Err(format!("unknown value predicate `{head}`")),
        },
    }
}

fn as_recover(sx: &Sx) -> Result<Recover<Tok>, String> {
    let (head, args) = head_args(sx)?;
    match (head, args) {
        ("before", [k]) => Ok(recover_before(Tok::plain(as_kind(k)?))),
        ("after", [k]) => Ok(recover_after(Tok::plain(as_kind(k)?))),
        ("beforeany", ks) => {
            Ok(recover_before_any(as_kinds(ks)?.into_iter().map(Tok::plain).collect::<Vec<_>>()))
        }
        ("afterany", ks) => {
            Ok(recover_after_any(as_kinds(ks)?.into_iter().map(Tok::plain).collect::<Vec<_>>()))
        }
        _ => Err(format!("bad recover spec `{head}`")),
    }
}

fn as_kindset(sx: &Sx) -> Result<KindSet, String> {
    Ok(KindSet::of(&as_kinds(as_list(sx)?)?))
}

fn want<'a>(head: &str, args: &'a [Sx], n: usize) -> Result<&'a [Sx], String> {
    if args.len() == n {
        Ok(args)
    } else {
        Err(format!("`{head}` expects {n} argument(s), found {}", args.len()))
    }
}

/// Compiles a grammar into a parser object by calling the real combinators.
#[allow(clippy::too_many_lines)]
fn compile(sx: &Sx, env: &Rc<Env>) -> Result<P, String> {
    let args: &[Sx];
    let head: &str;
    match sx {
        Sx::Atom(a) => {
            return match a.as_str() {
                "empty" => Ok(bx(|l, c| tc::empty(l, c).map_value(|()| Val::Unit))),
                "eot" => Ok(bx(|l, c| tc::end_of_text(l, c).map_value(|()| Val::Unit))),
                "userfail" => Ok(bx(|mut l: Lx, _c: Cx| {
                    let _ = l.peek();
                    Err(Box::new(UserError))
                })),
                other => Err(format!("unknown grammar `{other}`")),
            };
        }
        Sx::List(_) => {
            let (h, a) = head_args(sx)?;
            head = h;
            args = a;
        }
    }
    let g = |i: usize| -> Result<P, String> { compile(&args[i], env) };

    Ok(match head {
        // Primitives.
        "empty" | "eot" | "userfail" if args.is_empty() => {
            return compile(&Sx::Atom(head.to_string()), env)
        }
        "one" => {
            let a = want(head, args, 1)?;
            adapt!(tc::one::<Scn>(Tok::plain(as_kind(&a[0])?)), Val::Tok)
        }
        "any" => adapt!(tc::any::<Scn>(leak_toks(&as_kinds(args)?)), Val::Tok),
        "anyidx" => adapt!(tc::any_index::<Scn>(leak_toks(&as_kinds(args)?)), Val::Nat),
        "seq" => adapt!(tc::seq::<Scn>(leak_toks(&as_kinds(args)?)), v_toks),
        "seqcount" => adapt!(tc::seq_count::<Scn>(leak_toks(&as_kinds(args)?)), Val::Nat),
        "pred" => {
            let a = want(head, args, 1)?;
            adapt!(tc::pred::<Scn>(as_pred_expr(&a[0])?), Val::Tok)
        }

        // Joins.
        "left" => {
            want(head, args, 2)?;
            Box::new(tc::left(g(0)?, g(1)?))
        }
        "right" => {
            want(head, args, 2)?;
            Box::new(tc::right(g(0)?, g(1)?))
        }
        "both" => {
            want(head, args, 2)?;
            adapt!(tc::both(g(0)?, g(1)?), |(l, r)| v_pair(l, r))
        }
        "center" => {
            want(head, args, 3)?;
            Box::new(tc::center(g(0)?, g(1)?, g(2)?))
        }

        // Value transformers.
        "map" => {
            want(head, args, 2)?;
            let tag = as_atom(&args[0])?.to_string();
            Box::new(tc::map(g(1)?, move |v: Val| Val::Tag(tag.clone(), Box::new(v))))
        }
        "discard" => {
            want(head, args, 1)?;
            adapt!(tc::discard(g(0)?), |()| Val::Unit)
        }
        "text" => {
            want(head, args, 1)?;
            let base = env.text.as_ptr() as usize;
            adapt!(tc::text(g(0)?), move |s: &'static str| {
                let start = (s.as_ptr() as usize).wrapping_sub(base);
                Val::Text(start, start.wrapping_add(s.len()))
            })
        }
        "spanned" => {
            want(head, args, 1)?;
            adapt!(tc::spanned(g(0)?), |s: Spanned<Val>| Val::Spanned(s.span, Box::new(s.value)))
        }
        "sub" => {
            want(head, args, 1)?;
            Box::new(tc::sub(g(0)?))
        }

        // Alternatives and conditionals.
        "either" => {
            want(head, args, 2)?;
            Box::new(tc::either(g(0)?, g(1)?))
        }
        "maybe" => {
            want(head, args, 1)?;
            adapt!(tc::maybe(g(0)?), v_opt)
        }
        "reqif" => {
            want(head, args, 2)?;
            let b = as_bool(&args[0])?;
            adapt!(tc::require_if(move || b, g(1)?), v_opt)
        }
        "cond" => {
            want(head, args, 2)?;
            let b = as_bool(&args[0])?;
            adapt!(tc::cond(move || b, g(1)?), v_opt)
        }
        "implies" => {
            want(head, args, 2)?;
            adapt!(tc::implies(g(0)?, g(1)?), |o: Option<(Val, Val)>| v_opt(
                o.map(|(l, r)| v_pair(l, r))
            ))
        }
        "antecedent" => {
            want(head, args, 2)?;
            adapt!(tc::antecedent(g(0)?, g(1)?), v_opt)
        }
        "consequent" => {
            want(head, args, 2)?;
            adapt!(tc::consequent(g(0)?, g(1)?), v_opt)
        }
        "condimplies" => {
            want(head, args, 3)?;
            let vp = as_value_pred(&args[1])?;
            adapt!(tc::cond_implies(g(0)?, vp, g(2)?), |o: Option<(Val, Option<Val>)>| v_opt(
                o.map(|(l, r)| v_pair(l, v_opt(r)))
            ))
        }

        // Lexer / context control.
        "filterwith" => {
            want(head, args, 2)?;
            let spec = as_filter(&args[0])?;
            // `filter_with` always installs a filter; `none` is the filter that keeps everything.
            Box::new(tc::filter_with(move |t: &Tok| spec.keeps(t), g(1)?))
        }
        "unfiltered" => {
            want(head, args, 1)?;
            Box::new(tc::unfiltered(g(0)?))
        }
        "raw" => {
            want(head, args, 1)?;
            Box::new(tc::raw(g(0)?))
        }
        "unrec" => {
            want(head, args, 1)?;
            Box::new(tc::unrecoverable(g(0)?))
        }
        "recover" => {
            want(head, args, 2)?;
            let rec = as_recover(&args[0])?;
            adapt!(tc::recover(g(1)?, rec), v_opt)
        }
        "recoverdef" => {
            want(head, args, 2)?;
            let rec = as_recover(&args[0])?;
            Box::new(tc::recover_default(g(1)?, rec))
        }
        "recoverdelayed" => {
            want(head, args, 2)?;
            let rec = as_recover(&args[0])?;
            let mut p = tc::recover_delayed(g(1)?);
            bx(move |l: Lx, c: Cx| p(l, c, Rc::clone(&rec)).map_value(v_opt))
        }
        "recoverdefdelayed" => {
            want(head, args, 2)?;
            let rec = as_recover(&args[0])?;
            let mut p = tc::recover_default_delayed(g(1)?);
            bx(move |l: Lx, c: Cx| p(l, c, Rc::clone(&rec)))
        }
        "stabilize" => {
            want(head, args, 1)?;
            Box::new(tc::stabilize(g(0)?))
        }

        // Repetition.
        "repeat" => {
            want(head, args, 3)?;
            adapt!(tc::repeat(as_num(&args[0])?, as_hi(&args[1])?, g(2)?), Val::List)
        }
        "repeatcount" => {
            want(head, args, 3)?;
            adapt!(tc::repeat_count(as_num(&args[0])?, as_hi(&args[1])?, g(2)?), Val::Nat)
        }
        "repeatuntil" => {
            want(head, args, 4)?;
            adapt!(tc::repeat_until(as_num(&args[0])?, as_hi(&args[1])?, g(2)?, g(3)?), Val::List)
        }
        "repeatcountuntil" => {
            want(head, args, 4)?;
            adapt!(
                tc::repeat_count_until(as_num(&args[0])?, as_hi(&args[1])?, g(2)?, g(3)?),
                Val::Nat
            )
        }
        "intersperse" => {
            want(head, args, 4)?;
            adapt!(tc::intersperse(as_num(&args[0])?, as_hi(&args[1])?, g(2)?, g(3)?), Val::List)
        }
        "interspersecount" => {
            want(head, args, 4)?;
            adapt!(
                tc::intersperse_count(as_num(&args[0])?, as_hi(&args[1])?, g(2)?, g(3)?),
                Val::Nat
            )
        }
        "intersperseuntil" => {
            want(head, args, 5)?;
            adapt!(
                tc::intersperse_until(as_num(&args[0])?, as_hi(&args[1])?, g(2)?, g(3)?, g(4)?),
                Val::List
            )
        }
        "interspersecountuntil" => {
            want(head, args, 5)?;
            adapt!(
                tc::intersperse_count_until(
                    as_num(&args[0])?,
                    as_hi(&args[1])?,
                    g(2)?,
                    g(3)?,
                    g(4)?
                ),
                Val::Nat
            )
        }
        "interspersedef" => {
            want(head, args, 4)?;
            let sep = Tok::plain(as_kind(&args[3])?);
            adapt!(
                tc::intersperse_default(as_num(&args[0])?, as_hi(&args[1])?, g(2)?, sep),
                Val::List
            )
        }

        // Brackets.
        "bracket" | "bracketdef" | "bracketidx" | "bracketdefidx" => {
            want(head, args, 4)?;
            let open = leak_toks(&as_kinds(as_list(&args[0])?)?);
            let inner = g(1)?;
            let close = leak_toks(&as_kinds(as_list(&args[2])?)?);
            let abort = kind_pred(as_kindset(&args[3])?);
            match head {
                "bracket" => adapt!(tc::bracket(open, inner, close, abort), v_opt),
                "bracketdef" => Box::new(tc::bracket_default(open, inner, close, abort)),
                "bracketidx" => adapt!(
                    tc::bracket_index(open, inner, close, abort),
                    |(v, i): (Option<Val>, usize)| v_pair(v_opt(v), Val::Nat(i))
                ),
                _ => adapt!(
                    tc::bracket_default_index(open, inner, close, abort),
                    |(v, i): (Val, usize)| v_pair(v, Val::Nat(i))
                ),
            }
        }

        // Delimited lists.
        "upto" => {
            want(head, args, 2)?;
            Box::new(tc::up_to(g(0)?, kind_pred(as_kindset(&args[1])?)))
        }
        "list" => {
            want(head, args, 3)?;
            let sep = Tok::plain(as_kind(&args[1])?);
            adapt!(tc::list(g(0)?, sep, kind_pred(as_kindset(&args[2])?)), v_list_opt)
        }
        "listb" => {
            want(head, args, 5)?;
            let sep = Tok::plain(as_kind(&args[3])?);
            adapt!(
                tc::list_bounded(
                    as_num(&args[0])?,
                    as_hi(&args[1])?,
                    g(2)?,
                    sep,
                    kind_pred(as_kindset(&args[4])?)
                ),
                v_list_opt
            )
        }
        "listdef" => {
            want(head, args, 3)?;
            let sep = Tok::plain(as_kind(&args[1])?);
            adapt!(tc::list_default(g(0)?, sep, kind_pred(as_kindset(&args[2])?)), Val::List)
        }
        "listbdef" => {
            want(head, args, 5)?;
            let sep = Tok::plain(as_kind(&args[3])?);
            adapt!(
                tc::list_bounded_default(
                    as_num(&args[0])?,
                    as_hi(&args[1])?,
                    g(2)?,
                    sep,
                    kind_pred(as_kindset(&args[4])?)
                ),
                Val::List
            )
        }

        // User idioms.
        "ctxpush" => {
            want(head, args, 2)?;
            let tr = transform(as_atom(&args[0])?);
            let mut a = g(1)?;
            bx(move |l: Lx, ctx: Cx| {
                let c = ctx.clone().pushed(Rc::clone(&tr));
                a(l, c.clone()).apply_context(c)
            })
        }
        "probe" => {
            want(head, args, 1)?;
            let n = as_u32(&args[0])?;
            let env = Rc::clone(env);
            bx(move |l: Lx, ctx: Cx| {
                if let Err(e) = ctx.send_error(Box::new(Probe(n))) {
                    let ev = event("probe-ret", n, None, &trail(&*e));
                    env.sink.borrow_mut().push(ev);
                }
                Ok(Success::new(Val::Unit, l))
            })
        }

        other => return Err(format!("unknown grammar `{other}`")),
    })
}

////////////////////////////////////////////////////////////////////////////////
// parse-case
////////////////////////////////////////////////////////////////////////////////

/// `LX`: the state of a returned lexer and the tokens a clone of it still delivers.
fn lx_obs(l: &Lx) -> String {
    let rest = guard(|| {
        let mut cl = l.clone();
        let mut toks = Vec::new();
        while let Some(t) = cl.next() {
            toks.push(r_tok(&t));
        }
        toks
    });
    let mut s = format!(
        "(lx (cur {}) (ps {}) (ts {}) (flt {}) (rec {}) (rest",
        r_pos(l.cursor_pos()),
        r_span(l.parse_span()),
        r_span(l.token_span()),
        r_bool(l.filter().is_some()),
        r_bool(l.recover_state().is_some())
    );
    match rest {
        Some(toks) => push_all(&mut s, &toks),
        None => {
            s.push(' ');
            s.push_str(PANIC);
        }
    }
    s.push_str("))");
    s
}

/// Formats under `catch_unwind`, recording a panic in `flag`.
fn guarded_fmt(flag: &Cell<bool>, f: impl FnOnce() -> String) {
    if guard(f).is_none() {
        flag.set(true);
    }
}

fn run_parse_case(id: &str, fields: &[Sx]) -> Result<String, String> {
    let f = Fields::parse(fields)?;
    f.only(&[
        "le", "tab", "scanner", "filter", "sink", "pushed", "fmt", "runs", "text", "g", "order",
    ])?;
    // `(order fm)`: install the filter first, then the metrics (default: metrics first).
    let filter_first = match f.get("order") {
        Ok([a]) => as_atom(a)? == "fm",
        _ => false,
    };
    let metrics =
        ColumnMetrics::new().with_line_ending(as_le(f.one("le")?)?).with_tab_width(as_tab(f.one("tab")?)?);
    let scanner = as_scanner(f.one("scanner")?)?;
    let filter = as_filter(f.one("filter")?)?;
    let with_sink = as_flag(f.one("sink")?)?;
    let pushed: Vec<String> = f
        .get("pushed")?
        .iter()
        .map(|t| as_atom(t).map(str::to_string))
        .collect::<Result<_, _>>()?;
    let fmt_on = as_flag(f.one("fmt")?)?;
    let runs = as_num(f.one("runs")?)?;
    let text = leak_text(&as_text(f.get("text")?)?);
    let grammar = f.one("g")?;

    let sink_rec: Rc<RefCell<Vec<String>>> = Rc::new(RefCell::new(Vec::new()));
    let fmt_panicked: Rc<Cell<bool>> = Rc::new(Cell::new(false));
    let env = Rc::new(Env { text, sink: Rc::clone(&sink_rec) });
    // The source the errors are attached to when formatting them.
    let src: SourceTextRef<'static> = SourceText::new(text).with_column_metrics(metrics);

    // Lexer, context and parser object; constructing any of them may panic.
    let built = guard(|| -> Result<(Lx, Cx, P), String> {
        let lexer = if filter_first {
            Lexer::new(scanner, SourceText::new(text))
                .with_filter(filter.to_rc())
                .with_column_metrics(metrics)
        } else {
            Lexer::new(scanner, SourceText::new(text))
                .with_column_metrics(metrics)
                .with_filter(filter.to_rc())
        };
        let mut ctx: Cx = if with_sink {
            let rec = Rc::clone(&sink_rec);
            let flag = Rc::clone(&fmt_panicked);
            let sink: ErrorSink<'static> = Box::new(move |e: Box<dyn ParseError>| {
                // Describe first (by reference), then convert and format.
                let d = describe(&*e);
                rec.borrow_mut().push(d);
                if fmt_on {
                    guarded_fmt(&flag, move || format!("{}", e.into_source_error(src)));
                }
            });
            Context::new(Some(sink))
        } else {
            Context::empty()
        };
        for tag in &pushed {
            ctx = ctx.pushed(transform(tag));
        }
        let parser = compile(grammar, &env)?;
        Ok((lexer, ctx, parser))
    });

    let mut out = format!("({id}");
    match built {
        None => out.push_str(" (run PANIC)"),
        Some(Err(msg)) => return Err(msg),
        Some(Ok((lexer, ctx, mut parser))) => {
            if fmt_on {
                guarded_fmt(&fmt_panicked, || format!("{lexer}"));
                guarded_fmt(&fmt_panicked, || format!("{lexer:?}"));
            }
            let mut cur = Some(lexer);
            for _ in 0..runs {
                let lx = cur.take().expect("lexer present");
                let c = ctx.clone();
                match guard(|| {
                    // The observation of the returned lexer is part of the run.
                    parser(lx, c).map(|succ| {
                        let obs = format!("(ok {}) {}", r_val(&succ.value), lx_obs(&succ.lexer));
                        (succ, obs)
                    })
                }) {
                    None => {
                        out.push_str(" (run PANIC)");
                        break;
                    }
                    Some(Err(e)) => {
                        out.push_str(&format!(" (run (err {}))", describe(&*e)));
                        if fmt_on {
                            guarded_fmt(&fmt_panicked, move || {
                                format!("{}", e.into_source_error(src))
                            });
                        }
                        break;
                    }
                    Some(Ok((succ, obs))) => {
                        out.push_str(&format!(" (run {obs})"));
                        if fmt_on {
                            guarded_fmt(&fmt_panicked, || format!("{}", succ.lexer));
                            guarded_fmt(&fmt_panicked, || format!("{:?}", succ.lexer));
                        }
                        cur = Some(succ.lexer);
                    }
                }
            }
        }
    }

    out.push_str(" (sink");
    // A panic inside the sink's own borrow cannot happen (describe does not panic).
    let sunk = sink_rec.try_borrow().map(|s| s.clone()).unwrap_or_default();
    push_all(&mut out, &sunk);
    out.push(')');
    if fmt_on {
        out.push_str(if fmt_panicked.get() { " (fmt PANIC)" } else { " (fmt ok)" });
    }
    out.push(')');
    Ok(out)
}

////////////////////////////////////////////////////////////////////////////////
// Driver
////////////////////////////////////////////////////////////////////////////////

fn run_case(sx: &Sx) -> Result<String, String> {
    let items = as_list(sx)?;
    let (head, id, fields) = match items {
        [head, id, fields @ ..] => (as_atom(head)?, as_atom(id)?, fields),
        _ => return Err("expected `(KIND ID FIELD...)`".into()),
    };
    let run: fn(&str, &[Sx]) -> Result<String, String> = match head {
        "lex-case" => run_lex_case,
        "ctx-case" => run_ctx_case,
        "hctx-case" => run_hctx_case,
        "parse-case" => run_parse_case,
        other => return Err(format!("unknown case kind `{other}`")),
    };
    // Every case runs under `catch_unwind`; the inner guards normally catch first.
    match guard(|| run(id, fields)) {
        Some(r) => r,
        None => Ok(format!("({id} {PANIC})")),
    }
}

fn print_alphabet(out: &mut impl Write) -> io::Result<()> {
    for (name, c) in ALPHABET {
        writeln!(
            out,
            "(sym {} {} {} {})",
            name,
            *c as u32,
            c.len_utf8(),
            UnicodeWidthChar::width(*c).unwrap_or(0)
        )?;
        out.flush()?;
    }
    Ok(())
}

fn run_file(path: &str, from: usize, out: &mut impl Write) -> Result<(), String> {
    let input = std::fs::read_to_string(path).map_err(|e| format!("{path}: {e}"))?;
    let mut index = 0usize;
    for (lineno, line) in input.lines().enumerate() {
        if line.trim().is_empty() {
            continue;
        }
        let skip = index < from;
        index += 1;
        if skip {
            continue;
        }
        let at = |e: String| format!("{path}:{}: {e}", lineno + 1);
        let sexps = parse_sexps(line).map_err(at)?;
        let obs_line = match sexps.as_slice() {
            [one] => run_case(one).map_err(at)?,
            _ => return Err(at("expected exactly one case per line".into())),
        };
        writeln!(out, "{obs_line}").map_err(|e| format!("stdout: {e}"))?;
        // A supervisor may kill the process on the next case: nothing may stay buffered.
        out.flush().map_err(|e| format!("stdout: {e}"))?;
    }
    Ok(())
}

const USAGE: &str = "usage: hparse CASEFILE [--from N] | hparse --alphabet";

fn main() {
    // Panics of the library under test are observations, not diagnostics.
    std::panic::set_hook(Box::new(|_| {}));

    let args: Vec<String> = std::env::args().skip(1).collect();
    let stdout = io::stdout();
    let mut out = stdout.lock();

    let mut path: Option<String> = None;
    let mut from = 0usize;
    let mut alphabet = false;
    let mut bad = false;
    let mut it = args.iter();
    while let Some(a) = it.next() {
        match a.as_str() {
            "--alphabet" => alphabet = true,
            "--from" => match it.next().and_then(|n| n.parse::<usize>().ok()) {
                Some(n) => from = n,
                None => bad = true,
            },
            p if path.is_none() && !p.starts_with("--") => path = Some(p.to_string()),
            _ => bad = true,
        }
    }

    let result = if bad {
        Err(USAGE.to_string())
    } else if alphabet && path.is_none() {
        print_alphabet(&mut out).map_err(|e| format!("stdout: {e}"))
    } else if let (Some(p), false) = (path.as_ref(), alphabet) {
        run_file(p, from, &mut out)
    } else {
        Err(USAGE.to_string())
    };

    let flushed = out.flush();
    if let Err(e) = result {
        eprintln!("hparse: {e}");
        std::process::exit(1);
    }
    if let Err(e) = flushed {
        eprintln!("hparse: stdout: {e}");
        std::process::exit(1);
    }
}
